--------------------------- MODULE ActorLifecycle ---------------------------
(* Actor / BackgroundService life cycle (C10).                                *)
(*                                                                            *)
(* Structured like the code:                                                  *)
(*   _actor.py            Start (idempotent, fresh loop task after completion)*)
(*                        LoopBegin / RunContinue / RunOutcome / DelayElapsed *)
(*                        Finish = the try/except of _run_loop (restart policy*)
(*                        n_restarts < _restart_limit, RESTART_DELAY = 2 s)   *)
(*   _background_service  CallCancel, CallStop (= _wait(cancel=True)),        *)
(*                        CallWait (= _wait(cancel=False)), CallRound = one   *)
(*                        wake-up of `while self._tasks: [self.cancel();]     *)
(*                        done, _ = await asyncio.wait(self._tasks); collect` *)
(*                        -- the errors are raised once _tasks is empty       *)
(*   _run_utils.py        CallRun (start every actor that is not running,     *)
(*                        one wait() task per actor), RWaitBegin, RunReturn   *)
(*   asyncio              CancelDelivered: a requested cancellation reaches   *)
(*                        the task at its next step and wins over a result    *)
(*                        that is already there (Task._must_cancel)           *)
(* A task of the service is "loop" (the _run_loop task) or "extra" (a task    *)
(* the service added to _tasks at start or later).                            *)
(* The probe _run has two await points (pt = 1, 2); its outcome (return,      *)
(* Exception, BaseException) can be placed at either, a CancelledError can    *)
(* be propagated ("prop"), turned into an Exception ("exc") or into a normal  *)
(* return ("ret") -- legal user behaviours.                                   *)
(*                                                                            *)
(* C10 clauses: AtMostOneRun, RerunOnlyAfterException,                        *)
(*   NoRerunAfterReturnOrCancel, RestartCountExact, StartIdempotent,          *)
(*   StopCancelsEverything, StopReturnsOnlyWhenAllDone, StopSurfacesErrors,   *)
(*   RunReturnsIffAllFinished, StopLeadsToReturn / RestartHappens (liveness)  *)
EXTENDS Integers, Sequences, FiniteSets, TLC, Json, CSV, IOUtils

CONSTANTS NA,            \* number of actors (1; 2 for run(a1, a2))
          Limits,        \* restart limits to choose from (Unlimited == -1)
          MaxRuns,       \* bound on _run invocations per actor (generation bound)
          CancelModes,   \* what _run may do with a CancelledError: subset of {"prop","exc","ret"}
          XCancelModes,  \* the same for the extra task
          Features,      \* subset of {"start","stop","wait","cancel","extra","late","run","legacy"}
                         \* ("legacy": wait() as it was before commit 799638e, design-level witness only)
          MaxDepth,      \* history bound (generation only)
          Mode           \* "mc" | "gen" | "sim" | "trace"

VARIABLES limit,      \* a -> restart limit (_restart_limit, None == -1)
          loop,       \* a -> [st, kind, pt, creq]   the _run_loop task
          extra,      \* a -> [st, kind, creq]       an extra task in _tasks
          owned,      \* a -> subset of Tasks        the _tasks set
          nRestarts,  \* a -> n_restarts of the current _run_loop
          nRuns,      \* a -> _run invocations since the last fresh start
          totRuns,    \* a -> _run invocations in total (bound)
          inRun,      \* a -> number of _run calls executing now
          delayLeft,  \* a -> seconds until the restart sleep is due
          lastOut,    \* a -> "none" | "fresh" | outcome of the latest _run
          excSince,   \* a -> Exceptions escaped from _run since the last fresh start
          calls,      \* a -> [stop, wait, rwait -> [st, on, res, dev, stale, ferrs]]:
                      \*   on = the batch wait() is awaiting, res = what the call raised,
                      \*   stale = the service was started afresh while the call was in flight,
                      \*   ferrs = errors of the batch of the previous generation (kept by the call)
          runc,       \* run(actors...): "idle" | "waiting" | "returned"
          h           \* history (hidden by VIEW)

vars == <<limit, loop, extra, owned, nRestarts, nRuns, totRuns, inRun, delayLeft, lastOut, excSince, calls, runc, h>>
View == <<limit, loop, extra, owned, nRestarts, nRuns, totRuns, inRun, delayLeft, lastOut, excSince, calls, runc>>

Actors == 1..NA
Tasks == {"loop", "extra"}
CallNames == {"stop", "wait", "rwait"}
Unlimited == -1
RestartDelay == 2

NoLoop == [st |-> "none", kind |-> "none", pt |-> 0, creq |-> FALSE]
NoExtra == [st |-> "none", kind |-> "none", creq |-> FALSE]
NoCall == [st |-> "idle", on |-> {}, res |-> {}, dev |-> FALSE, stale |-> FALSE, ferrs |-> {}]

EmitOn == "OUT_FILE" \in DOMAIN IOEnv
Emit(v) == IF EmitOn THEN CSVWrite("%1$s", <<ToJson(v)>>, IOEnv.OUT_FILE) ELSE TRUE

Alive(a, t) == IF t = "loop" THEN loop[a].st \in {"created", "delaying", "running"} ELSE extra[a].st = "running"
TaskDone(a, t) == IF t = "loop" THEN loop[a].st = "done" ELSE extra[a].st = "done"
KindOf(a, t) == IF t = "loop" THEN loop[a].kind ELSE extra[a].kind
\* BackgroundService.is_running: any(not task.done() for task in self._tasks)
IsRunning(a) == \E t \in owned[a] : Alive(a, t)
WillRestart(a) == limit[a] = Unlimited \/ nRestarts[a] < limit[a]

InitWith(lim) ==
    /\ limit = lim
    /\ loop = [a \in Actors |-> NoLoop]
    /\ extra = [a \in Actors |-> NoExtra]
    /\ owned = [a \in Actors |-> {}]
    /\ nRestarts = [a \in Actors |-> 0]
    /\ nRuns = [a \in Actors |-> 0]
    /\ totRuns = [a \in Actors |-> 0]
    /\ inRun = [a \in Actors |-> 0]
    /\ delayLeft = [a \in Actors |-> 0]
    /\ lastOut = [a \in Actors |-> "none"]
    /\ excSince = [a \in Actors |-> 0]
    /\ calls = [a \in Actors |-> [c \in CallNames |-> NoCall]]
    /\ runc = "idle"
    /\ h = <<>>

Init == \E lim \in [Actors -> Limits] : InitWith(lim)

ErrName(t, k) == IF k = "cancelled" THEN "cancelled"
                 ELSE IF t = "loop" THEN (IF k = "exc" THEN "loop_exc" ELSE "loop_base")
                 ELSE (IF k = "exc" THEN "extra_exc" ELSE "extra_base")
BatchDone(a, c) == \A t \in calls[a][c].on : TaskDone(a, t)
\* what the done tasks of the awaited batch raise (CancelledError included)
Errs(a, c) == calls[a][c].ferrs \cup {ErrName(t, KindOf(a, t)) : t \in {u \in calls[a][c].on : KindOf(a, u) # "ret"}}
Remaining(a, c) == owned[a] \ calls[a][c].on
Surfaced(c, errs) == IF c = "stop" THEN errs \ {"cancelled"} ELSE errs

----------------------------------------------------------------------------
(* Actor.start / _run_loop *)

NoCallInFlight(a) == \A c \in CallNames : calls[a][c].st \in {"idle", "returned"}

\* start() while a stop()/wait() is between its tasks finishing and its own wake-up: _tasks.clear()
\* empties the set the call will subtract its done tasks from; the call still holds those tasks
\* (asyncio.wait copied them) and raises their errors, or goes on to await the new generation
Freeze(a) == [c \in CallNames |->
                IF calls[a][c].st = "waiting"
                THEN [calls[a][c] EXCEPT !.ferrs = Errs(a, c), !.on = {}, !.stale = TRUE]
                ELSE IF c = "rwait" /\ calls[a][c].st = "returned" /\ runc = "waiting"
                THEN [calls[a][c] EXCEPT !.stale = TRUE]
                ELSE calls[a][c]]

\* the part of start() after `if self.is_running: return`: _tasks.clear(); _tasks.add(create_task(_run_loop()))
FreshStart(a) ==
    /\ loop' = [loop EXCEPT ![a] = [st |-> "created", kind |-> "none", pt |-> 0, creq |-> FALSE]]
    /\ extra' = [extra EXCEPT ![a] = NoExtra]
    /\ owned' = [owned EXCEPT ![a] = {"loop"}]
    /\ nRestarts' = [nRestarts EXCEPT ![a] = 0]
    /\ nRuns' = [nRuns EXCEPT ![a] = 0]
    /\ lastOut' = [lastOut EXCEPT ![a] = "fresh"]
    /\ excSince' = [excSince EXCEPT ![a] = 0]
    /\ delayLeft' = [delayLeft EXCEPT ![a] = 0]

Start(a) ==
    /\ IF IsRunning(a)
       THEN UNCHANGED <<loop, extra, owned, nRestarts, nRuns, lastOut, excSince, delayLeft, calls>>
       ELSE FreshStart(a) /\ calls' = [calls EXCEPT ![a] = Freeze(a)]
    /\ UNCHANGED <<limit, totRuns, inRun, runc>>

BeginRun(a) ==
    /\ loop' = [loop EXCEPT ![a].st = "running", ![a].pt = 1]
    /\ nRuns' = [nRuns EXCEPT ![a] = @ + 1]
    /\ totRuns' = [totRuns EXCEPT ![a] = @ + 1]
    /\ inRun' = [inRun EXCEPT ![a] = @ + 1]

\* first step of the _run_loop task: n_restarts = 0, no delay, await self._run()
LoopBegin(a) ==
    /\ loop[a].st = "created" /\ ~loop[a].creq
    /\ BeginRun(a)
    /\ UNCHANGED <<limit, extra, owned, nRestarts, delayLeft, lastOut, excSince, calls, runc>>

\* asyncio.sleep(RESTART_DELAY) is over: await self._run() again
DelayElapsed(a) ==
    /\ loop[a].st = "delaying" /\ ~loop[a].creq /\ delayLeft[a] <= 0
    /\ BeginRun(a)
    /\ UNCHANGED <<limit, extra, owned, nRestarts, delayLeft, lastOut, excSince, calls, runc>>

\* _run passes its first await point
RunContinue(a) ==
    /\ loop[a].st = "running" /\ ~loop[a].creq /\ loop[a].pt = 1
    /\ loop' = [loop EXCEPT ![a].pt = 2]
    /\ UNCHANGED <<limit, extra, owned, nRestarts, nRuns, totRuns, inRun, delayLeft, lastOut, excSince, calls, runc>>

\* the try/except of _run_loop applied to what _run did (k)
Finish(a, k) ==
    /\ inRun' = [inRun EXCEPT ![a] = @ - 1]
    /\ lastOut' = [lastOut EXCEPT ![a] = k]
    /\ excSince' = [excSince EXCEPT ![a] = IF k = "exc" THEN @ + 1 ELSE @]
    /\ IF k = "exc" /\ WillRestart(a)
       THEN /\ nRestarts' = [nRestarts EXCEPT ![a] = @ + 1]
            /\ loop' = [loop EXCEPT ![a] = [st |-> "delaying", kind |-> "none", pt |-> 0, creq |-> FALSE]]
            /\ delayLeft' = [delayLeft EXCEPT ![a] = RestartDelay]
       ELSE /\ loop' = [loop EXCEPT ![a] = [st |-> "done", kind |-> k, pt |-> 0, creq |-> FALSE]]
            /\ UNCHANGED <<nRestarts, delayLeft>>

\* _run returns / raises Exception / raises BaseException at its current await point
RunOutcome(a, k) ==
    /\ k \in {"ret", "exc", "base"}
    /\ loop[a].st = "running" /\ ~loop[a].creq
    /\ Finish(a, k)
    /\ UNCHANGED <<limit, extra, owned, nRuns, totRuns, calls, runc>>

ExtraOutcome(a, k) ==
    /\ k \in {"ret", "exc", "base"}
    /\ extra[a].st = "running" /\ ~extra[a].creq
    /\ extra' = [extra EXCEPT ![a] = [st |-> "done", kind |-> k, creq |-> FALSE]]
    /\ UNCHANGED <<limit, loop, owned, nRestarts, nRuns, totRuns, inRun, delayLeft, lastOut, excSince, calls, runc>>

\* the service adds a task to _tasks while it is running ("late": also while a stop() is in flight)
AddExtra(a) ==
    /\ IsRunning(a) /\ extra[a].st = "none"
    /\ extra' = [extra EXCEPT ![a] = [st |-> "running", kind |-> "none", creq |-> FALSE]]
    /\ owned' = [owned EXCEPT ![a] = @ \cup {"extra"}]
    /\ UNCHANGED <<limit, loop, nRestarts, nRuns, totRuns, inRun, delayLeft, lastOut, excSince, calls, runc>>

----------------------------------------------------------------------------
(* cancellation *)

\* BackgroundService.cancel(): task.cancel() for every task in _tasks (no effect on finished tasks)
CancelAll(a) ==
    /\ loop' = [loop EXCEPT ![a].creq = @ \/ ("loop" \in owned[a] /\ Alive(a, "loop"))]
    /\ extra' = [extra EXCEPT ![a].creq = @ \/ ("extra" \in owned[a] /\ Alive(a, "extra"))]

CallCancel(a) ==
    /\ CancelAll(a)
    /\ UNCHANGED <<limit, owned, nRestarts, nRuns, totRuns, inRun, delayLeft, lastOut, excSince, calls, runc>>

\* the CancelledError reaches the loop task: before its first step and in the restart sleep it ends
\* the task; inside _run the user code decides (m)
CancelLoop(a, m) ==
    /\ loop[a].creq /\ Alive(a, "loop")
    /\ IF loop[a].st = "running"
       THEN /\ m \in CancelModes
            /\ Finish(a, IF m = "prop" THEN "cancelled" ELSE m)
       ELSE /\ m = "prop"
            /\ loop' = [loop EXCEPT ![a] = [st |-> "done", kind |-> "cancelled", pt |-> 0, creq |-> FALSE]]
            /\ UNCHANGED <<nRestarts, delayLeft, inRun, lastOut, excSince>>
    /\ UNCHANGED <<limit, extra, owned, nRuns, totRuns, calls, runc>>

CancelExtra(a, m) ==
    /\ extra[a].creq /\ Alive(a, "extra") /\ m \in XCancelModes
    /\ extra' = [extra EXCEPT ![a] = [st |-> "done", kind |-> (IF m = "prop" THEN "cancelled" ELSE m), creq |-> FALSE]]
    /\ UNCHANGED <<limit, loop, owned, nRestarts, nRuns, totRuns, inRun, delayLeft, lastOut, excSince, calls, runc>>

----------------------------------------------------------------------------
(* stop / wait *)

\* stop(): `if not self._tasks: return`, otherwise cancel() and wait()
CallStop(a) ==
    /\ calls[a].stop.st # "waiting"
    /\ CancelAll(a)
    /\ calls' = [calls EXCEPT ![a].stop = IF owned[a] = {} THEN [NoCall EXCEPT !.st = "returned"]
                                          ELSE [NoCall EXCEPT !.st = "waiting", !.on = owned[a]]]
    /\ UNCHANGED <<limit, owned, nRestarts, nRuns, totRuns, inRun, delayLeft, lastOut, excSince, runc>>

\* wait(): `while self._tasks:` returns at once when there is no task
CallWait(a) ==
    /\ calls[a].wait.st # "waiting"
    /\ calls' = [calls EXCEPT ![a].wait = IF owned[a] = {} THEN [NoCall EXCEPT !.st = "returned"]
                                          ELSE [NoCall EXCEPT !.st = "waiting", !.on = owned[a]]]
    /\ UNCHANGED <<limit, loop, extra, owned, nRestarts, nRuns, totRuns, inRun, delayLeft, lastOut, excSince, runc>>

\* Named cause predicate of the defect repaired in 799638e (formerly KF-C10-1..3): wait() raised
\* the errors of the batch it had awaited from INSIDE its `while self._tasks` loop, so tasks added
\* to _tasks after the batch was taken were neither awaited nor (for stop()) cancelled; with stop()
\* the batch always holds a CancelledError.  It is false on every returning step of the current
\* design; if the old behaviour comes back the failing records carry this name.
Dev_LateTaskAbandoned(a, c) ==
    /\ calls[a][c].st = "waiting" /\ BatchDone(a, c) /\ ~calls[a][c].stale
    /\ Errs(a, c) # {}
    /\ Remaining(a, c) # {}

\* one wake-up of _wait(): _tasks -= done; the errors of the done tasks are kept (ferrs); when
\* nothing is left the call returns and raises them all; otherwise it goes on to await the tasks
\* that were added meanwhile, stop() cancelling them first.
\* legacy = TRUE is the behaviour before 799638e: return as soon as the awaited batch holds an
\* error or a cancellation, never cancel again.
CallRound(a, c, legacy) ==
    /\ calls[a][c].st = "waiting" /\ BatchDone(a, c)
    /\ owned' = [owned EXCEPT ![a] = Remaining(a, c)]
    /\ IF Remaining(a, c) = {} \/ (Errs(a, c) # {} /\ legacy)
       THEN /\ calls' = [calls EXCEPT ![a][c] = [@ EXCEPT !.st = "returned", !.on = {}, !.ferrs = {}, !.res = Surfaced(c, Errs(a, c)),
                                                          !.dev = Dev_LateTaskAbandoned(a, c)]]
            /\ UNCHANGED <<loop, extra>>
       ELSE /\ calls' = [calls EXCEPT ![a][c].on = Remaining(a, c), ![a][c].ferrs = Errs(a, c)]
            /\ IF ~legacy /\ c = "stop" THEN CancelAll(a) ELSE UNCHANGED <<loop, extra>>
    /\ UNCHANGED <<limit, nRestarts, nRuns, totRuns, inRun, delayLeft, lastOut, excSince, runc>>

\* the call returns at this wake-up (current design: nothing left; legacy: or the batch failed)
Returns(a, c, legacy) == calls[a][c].st = "waiting" /\ BatchDone(a, c) /\ (Remaining(a, c) = {} \/ (Errs(a, c) # {} /\ legacy))

----------------------------------------------------------------------------
(* run(actors...) *)

CallRun ==
    /\ runc = "idle"
    /\ LET S == {a \in Actors : ~IsRunning(a)} IN
         /\ loop' = [a \in Actors |-> IF a \in S THEN [st |-> "created", kind |-> "none", pt |-> 0, creq |-> FALSE] ELSE loop[a]]
         /\ extra' = [a \in Actors |-> IF a \in S THEN NoExtra ELSE extra[a]]
         /\ owned' = [a \in Actors |-> IF a \in S THEN {"loop"} ELSE owned[a]]
         /\ nRestarts' = [a \in Actors |-> IF a \in S THEN 0 ELSE nRestarts[a]]
         /\ nRuns' = [a \in Actors |-> IF a \in S THEN 0 ELSE nRuns[a]]
         /\ lastOut' = [a \in Actors |-> IF a \in S THEN "fresh" ELSE lastOut[a]]
         /\ excSince' = [a \in Actors |-> IF a \in S THEN 0 ELSE excSince[a]]
         /\ delayLeft' = [a \in Actors |-> IF a \in S THEN 0 ELSE delayLeft[a]]
         /\ calls' = [a \in Actors |-> [(IF a \in S THEN Freeze(a) ELSE calls[a]) EXCEPT !.rwait = [NoCall EXCEPT !.st = "called"]]]
    /\ runc' = "waiting"
    /\ UNCHANGED <<limit, totRuns, inRun>>

\* first step of the task run() created for a.wait()
RWaitBegin(a) ==
    /\ calls[a].rwait.st = "called"
    /\ calls' = [calls EXCEPT ![a].rwait = IF owned[a] = {} THEN [@ EXCEPT !.st = "returned"]
                                           ELSE [@ EXCEPT !.st = "waiting", !.on = owned[a]]]
    /\ UNCHANGED <<limit, loop, extra, owned, nRestarts, nRuns, totRuns, inRun, delayLeft, lastOut, excSince, runc>>

\* `while pending_tasks:` is left when every wait() task is done
RunReturn ==
    /\ runc = "waiting" /\ \A a \in Actors : calls[a].rwait.st = "returned"
    /\ runc' = "returned"
    /\ UNCHANGED <<limit, loop, extra, owned, nRestarts, nRuns, totRuns, inRun, delayLeft, lastOut, excSince, calls>>

----------------------------------------------------------------------------
(* time: one tick = 1 s; only a pending restart sleep observes it *)
TimePass ==
    /\ delayLeft' = [a \in Actors |-> IF loop[a].st = "delaying" /\ delayLeft[a] > -1 THEN delayLeft[a] - 1 ELSE delayLeft[a]]
    /\ UNCHANGED <<limit, loop, extra, owned, nRestarts, nRuns, totRuns, inRun, lastOut, excSince, calls, runc>>

----------------------------------------------------------------------------
Rec(act, a, k) == [act |-> act, a |-> a, k |-> k]
Gen == Mode \in {"gen", "sim"} => Len(h) < MaxDepth
Log(r) == h' = (IF Mode \in {"gen", "sim"} THEN Append(h, r) ELSE h)
Case(hh) == [lim |-> limit, h |-> hh]
EmitRule == Mode = "gen" => Emit(Case(h'))
Has(f) == f \in Features
Outs == {"ret", "exc", "base"}
\* generation bound: an outcome that leads to another _run needs room for it
Room(a, k) == (k = "exc" /\ WillRestart(a)) => totRuns[a] < MaxRuns

StartStep == Gen /\ Has("start") /\ (\E a \in Actors : (IsRunning(a) \/ totRuns[a] < MaxRuns) /\ Start(a) /\ Log(Rec("start", a, ""))) /\ EmitRule
LoopBeginA(a) == LoopBegin(a) /\ Log(Rec("int", a, ""))
LoopBeginStep == Gen /\ (\E a \in Actors : LoopBeginA(a)) /\ EmitRule
DelayElapsedA(a) == DelayElapsed(a) /\ Log(Rec("int", a, ""))
DelayElapsedStep == Gen /\ (\E a \in Actors : DelayElapsedA(a)) /\ EmitRule
RunContinueStep == Gen /\ (\E a \in Actors : RunContinue(a) /\ Log(Rec("out", a, "cont"))) /\ EmitRule
RunOutcomeStep == Gen /\ (\E a \in Actors, k \in Outs : Room(a, k) /\ RunOutcome(a, k) /\ Log(Rec("out", a, k))) /\ EmitRule
ExtraOutcomeStep == Gen /\ (\E a \in Actors, k \in Outs : ExtraOutcome(a, k) /\ Log(Rec("xout", a, k))) /\ EmitRule
AddExtraStep == Gen /\ Has("extra") /\ (\E a \in Actors : (Has("late") \/ calls[a].stop.st # "waiting") /\ AddExtra(a) /\ Log(Rec("addx", a, ""))) /\ EmitRule
CancelStep == Gen /\ Has("cancel") /\ (\E a \in Actors : CallCancel(a) /\ Log(Rec("cancel", a, ""))) /\ EmitRule
CancelLoopA(a) == \E m \in {"prop", "exc", "ret"} : Room(a, m) /\ CancelLoop(a, m) /\ Log(Rec("cdl", a, m))
CancelLoopStep == Gen /\ (\E a \in Actors : CancelLoopA(a)) /\ EmitRule
CancelExtraA(a) == \E m \in {"prop", "exc", "ret"} : CancelExtra(a, m) /\ Log(Rec("cdx", a, m))
CancelExtraStep == Gen /\ (\E a \in Actors : CancelExtraA(a)) /\ EmitRule
CallStopStep == Gen /\ Has("stop") /\ (\E a \in Actors : CallStop(a) /\ Log(Rec("stop", a, ""))) /\ EmitRule
CallWaitStep == Gen /\ Has("wait") /\ (\E a \in Actors : CallWait(a) /\ Log(Rec("wait", a, ""))) /\ EmitRule
RoundA(a, c) == CallRound(a, c, Has("legacy")) /\ Log(Rec("int", a, ""))
StopRoundStep == Gen /\ (\E a \in Actors : RoundA(a, "stop")) /\ EmitRule
WaitRoundStep == Gen /\ (\E a \in Actors : RoundA(a, "wait")) /\ EmitRule
CallRunStep == Gen /\ Has("run") /\ (\A a \in Actors : IsRunning(a) \/ totRuns[a] < MaxRuns) /\ CallRun /\ Log(Rec("run", 0, "")) /\ EmitRule
RWaitBeginA(a) == RWaitBegin(a) /\ Log(Rec("int", a, ""))
RWaitBeginStep == Gen /\ (\E a \in Actors : RWaitBeginA(a)) /\ EmitRule
RWaitRoundStep == Gen /\ (\E a \in Actors : RoundA(a, "rwait")) /\ EmitRule
RunReturnStep == Gen /\ RunReturn /\ Log(Rec("int", 0, "")) /\ EmitRule
\* the clock moves while a restart sleep is pending, and once past its deadline (late wake-up)
TimeStep == Gen /\ (\E a \in Actors : loop[a].st = "delaying" /\ delayLeft[a] > -1) /\ TimePass /\ Log(Rec("tick", 0, "")) /\ EmitRule

Next == \/ StartStep \/ LoopBeginStep \/ DelayElapsedStep \/ RunContinueStep \/ RunOutcomeStep
        \/ ExtraOutcomeStep \/ AddExtraStep \/ CancelStep \/ CancelLoopStep \/ CancelExtraStep
        \/ CallStopStep \/ CallWaitStep \/ StopRoundStep \/ WaitRoundStep
        \/ CallRunStep \/ RWaitBeginStep \/ RWaitRoundStep \/ RunReturnStep \/ TimeStep

Spec == Init /\ [][Next]_vars
\* weak fairness of the task steps (and of the clock while a sleep is pending); the outcomes of
\* _run and of the extra task are the environment's choice and are not fair
FairSpec == /\ Spec
            /\ \A a \in Actors : /\ WF_vars(LoopBeginA(a)) /\ WF_vars(DelayElapsedA(a))
                                  /\ WF_vars(CancelLoopA(a)) /\ WF_vars(CancelExtraA(a)) /\ WF_vars(RWaitBeginA(a))
                                  /\ \A c \in CallNames : WF_vars(RoundA(a, c))
            /\ WF_vars(RunReturnStep) /\ WF_vars(TimeStep)

SimEmit == (Mode = "sim" /\ Len(h) = MaxDepth) => Emit(Case(h))

\* nothing internal is enabled (the event loop is idle)
Quiescent ==
    /\ \A a \in Actors :
         /\ loop[a].st # "created"
         /\ ~(loop[a].st = "delaying" /\ delayLeft[a] <= 0)
         /\ ~(loop[a].creq /\ Alive(a, "loop")) /\ ~(extra[a].creq /\ Alive(a, "extra"))
         /\ \A c \in CallNames : ~(calls[a][c].st = "waiting" /\ BatchDone(a, c)) /\ calls[a][c].st # "called"
    /\ ~(runc = "waiting" /\ \A a \in Actors : calls[a].rwait.st = "returned")

----------------------------------------------------------------------------
(* C10 *)
Kinds == {"ret", "exc", "base", "cancelled"}
TypeOK ==
    /\ \A a \in Actors :
         /\ loop[a].st \in {"none", "created", "delaying", "running", "done"} /\ loop[a].kind \in Kinds \cup {"none"}
         /\ (loop[a].st = "done") = (loop[a].kind # "none")
         /\ (loop[a].st = "running") = (loop[a].pt \in {1, 2}) /\ loop[a].pt \in 0..2
         /\ extra[a].st \in {"none", "running", "done"} /\ (extra[a].st = "done") = (extra[a].kind # "none")
         /\ owned[a] \subseteq Tasks /\ nRestarts[a] \in 0..MaxRuns /\ totRuns[a] \in 0..MaxRuns /\ delayLeft[a] \in -1..RestartDelay
         /\ \A c \in CallNames : calls[a][c].on \subseteq Tasks /\ calls[a][c].st \in {"idle", "called", "waiting", "returned"}
    /\ runc \in {"idle", "waiting", "returned"}

\* a task that has not finished is in _tasks (so cancel()/stop()/is_running see it)
AliveOwned == \A a \in Actors, t \in Tasks : Alive(a, t) => t \in owned[a]

\* never two _run executing
AtMostOneRun == \A a \in Actors : inRun[a] <= 1 /\ (inRun[a] = 1) = (loop[a].st = "running")

\* limit n => at most n + 1 runs per start; the (n+1)-th Exception ends the loop task with that error
RestartCountExact ==
    \A a \in Actors :
        /\ limit[a] # Unlimited => nRuns[a] <= limit[a] + 1 /\ excSince[a] <= limit[a] + 1
        /\ (limit[a] # Unlimited /\ excSince[a] = limit[a] + 1) => (loop[a].st = "done" /\ loop[a].kind = "exc")
        /\ loop[a].st = "delaying" => (lastOut[a] = "exc" /\ (limit[a] = Unlimited \/ excSince[a] <= limit[a]))

\* a new _run invocation happens only on a fresh start, or after the previous one raised an
\* Exception, the delay elapsed and the limit allows it
RunBegins(a) == totRuns'[a] = totRuns[a] + 1
RerunOnlyAfterException ==
    [][\A a \in Actors : RunBegins(a) =>
          \/ lastOut[a] = "fresh"
          \/ (lastOut[a] = "exc" /\ delayLeft[a] <= 0 /\ (limit[a] = Unlimited \/ excSince[a] <= limit[a]))]_vars
NoRerunAfterReturnOrCancel ==
    [][\A a \in Actors : RunBegins(a) => lastOut[a] \notin {"ret", "cancelled", "base", "none"}]_vars
\* after a return / cancellation / BaseException / exhausted limit the loop task is done for good
NoRunWhenDone == \A a \in Actors : (lastOut[a] \in {"ret", "cancelled", "base"}) => loop[a].st = "done"

\* start() while running changes nothing; otherwise exactly one fresh loop task, counters reset
FreshStarted(a) == loop'[a].st = "created" /\ loop[a].st # "created"
StartIdempotent ==
    [][\A a \in Actors : FreshStarted(a) =>
          (~IsRunning(a) /\ owned'[a] = {"loop"} /\ nRestarts'[a] = 0 /\ nRuns'[a] = 0)]_vars

\* stop() requests the cancellation of every task that has not finished
StopCalled(a) == calls[a].stop.st # "waiting" /\ calls'[a].stop.st = "waiting"
StopCancelsEverything ==
    [][\A a \in Actors : StopCalled(a) => \A t \in owned[a] : Alive(a, t) => (IF t = "loop" THEN loop'[a].creq ELSE extra'[a].creq)]_vars

StopReturned(a) == calls[a].stop.st = "waiting" /\ calls'[a].stop.st = "returned"
StopReturnsOnlyWhenAllDone ==
    [][\A a \in Actors : StopReturned(a) => (~IsRunning(a)' \/ calls[a].stop.stale)]_vars
\* design-level witness of the repaired defect: with feature "legacy" (and "late") TLC violates
\* StopReturnsOnlyWhenAllDone, and the cause predicate holds on that step
LegacyViolationHasCause ==
    [][\A a \in Actors : (StopReturned(a) /\ IsRunning(a)' /\ ~calls[a].stop.stale) => Dev_LateTaskAbandoned(a, "stop")]_vars

\* a task leaves _tasks through stop()/wait() only with its non-cancellation error raised by that call;
\* a returning stop()/wait() raises the errors of every finished task of the service; stop() never
\* raises the cancellations
StopSurfacesErrors ==
    [][\A a \in Actors :
          LET gone == owned[a] \ owned'[a]
              errs == {ErrName(t, KindOf(a, t)) : t \in {u \in gone : KindOf(a, u) \in {"exc", "base"}}}
          IN  /\ (~FreshStarted(a) /\ errs # {}) =>
                     \E c \in CallNames : /\ calls[a][c].st = "waiting"
                                          /\ \/ calls'[a][c].st = "returned" /\ errs \subseteq calls'[a][c].res
                                             \/ calls'[a][c].st = "waiting" /\ errs \subseteq calls'[a][c].ferrs
              /\ \A c \in {"stop", "wait"} : (calls[a][c].st = "waiting" /\ calls'[a][c].st = "returned") =>
                     \/ {ErrName(t, KindOf(a, t)) : t \in {u \in owned[a] : KindOf(a, u) \in {"exc", "base"}}} \subseteq calls'[a][c].res
                     \/ calls[a][c].stale
              /\ "cancelled" \notin calls'[a].stop.res]_vars

\* run() returns only when no actor is running, and (RunReturnsWhenAllFinished, liveness) it does return then
RunReturnsIffAllFinished ==
    [][(runc = "waiting" /\ runc' = "returned") => \A a \in Actors : ~IsRunning(a)' \/ calls[a].rwait.stale]_vars
RunReturnsWhenAllFinished == (runc = "waiting" /\ \A a \in Actors : ~IsRunning(a)) ~> (runc = "returned")

\* liveness under weak fairness of the task steps (checked with cancellation propagated)
\* (a stop() that was overtaken by a fresh start answers for the generation it was called on: if
\* that generation had ended without errors it goes on to await the new one, which it never cancelled)
StopLeadsToReturn == \A a \in Actors : (calls[a].stop.st = "waiting" /\ ~calls[a].stop.stale) ~> (calls[a].stop.st = "returned" \/ calls[a].stop.stale)
RestartHappens == \A a \in Actors : (loop[a].st = "delaying") ~> (loop[a].st # "delaying")

=============================================================================
