----------------------- MODULE PowerDistributorTrace -----------------------
(* Validates executions recorded from the real PowerDistributingActor (probe  *)
(* ComponentManager, loop pumped one iteration at a time) against             *)
(* PowerDistributor.tla.                                                      *)
(*                                                                            *)
(* One trace per ndjson line:  [id, lines], lines = sequence of               *)
(*   [ev |-> "send", g, p]          request p for group g put on the channel  *)
(*   [ev |-> "resolve", g, o]       harness finished the parked distribution  *)
(*   [ev |-> "iter", obs, proc, pend, idle]   one loop iteration: obs = probe  *)
(*        events in order ([k |-> "enter"|"exit"|"resolve", g, p, o]),        *)
(*        proc/pend = projection of _processing_tasks/_pending_requests after *)
(*        the iteration (-1 = projection unavailable), idle = loop idle       *)
(*   [ev |-> "final"]               everything drained                        *)
(* (a) clause checks that are pure functions of the recorded events           *)
(* (b) existential validation: some interleaving of the spec's internal       *)
(*     actions explains every iteration; at idle points nothing internal may  *)
(*     remain enabled (pending is started "as soon as" the task finishes).    *)
EXTENDS PowerDistributor, SequencesExt, TLCExt

VARIABLES tid, l, oi
tvars == <<vars, tid, l, oi>>

\* TLCEval: parse the file once, not at every use
TraceLog == TLCEval(ndJsonDeserialize(IOEnv.TRACE_FILE))
Tr == TraceLog[tid]
Line == Tr.lines[l]
NL == Len(Tr.lines)

Say(v) == CSVWrite("%1$s", <<ToJson(v)>>, IOEnv.VERDICT_FILE)
Check(ok, clause, detail) == IF ok THEN TRUE ELSE Say([tid |-> Tr.id, l |-> 0, clause |-> clause, detail |-> detail])

----------------------------------------------------------------------------
(* (a) observation-only clauses *)
Ev(k, g, p, o) == [k |-> k, g |-> g, p |-> p, o |-> o]
LineEvents(x) ==
    IF x.ev = "send" THEN <<Ev("send", x.g, x.p, "")>>
    ELSE IF x.ev = "resolve" THEN <<Ev("resolve", x.g, 0, x.o)>>
    ELSE IF x.ev = "iter" THEN x.obs \o (IF x.idle THEN <<Ev("idle", 0, 0, "")>> ELSE <<>>)
    ELSE IF x.ev = "restart" THEN <<>>
    ELSE <<Ev("final", 0, 0, "")>>
RECURSIVE FlatFrom(_)
FlatFrom(k) == IF k > NL THEN <<>> ELSE LineEvents(Tr.lines[k]) \o FlatFrom(k + 1)

Count(F, i, k, g) == Cardinality({j \in 1..(i - 1) : F[j].k = k /\ F[j].g = g})
LastOf(F, i, k, g) == LET S == {j \in 1..(i - 1) : F[j].k = k /\ F[j].g = g}
                      IN IF S = {} THEN 0 ELSE F[CHOOSE j \in S : \A m \in S : m <= j].p
Running(F, i, g) == Count(F, i, "enter", g) - Count(F, i, "exit", g)

ObsChecks ==
    LET F == FlatFrom(1) IN
    /\ \A i \in 1..Len(F) :
         /\ F[i].k = "enter" =>
              /\ Check(Running(F, i, F[i].g) = 0, "C14.NoOverlap", <<"group", F[i].g, "request", F[i].p, "event", i>>)
              /\ Check(F[i].p > LastOf(F, i, "enter", F[i].g), "C14.EnteredIncreasing", <<"group", F[i].g, "request", F[i].p>>)
              /\ Check(\E j \in 1..(i - 1) : F[j].k = "send" /\ F[j].g = F[i].g /\ F[j].p = F[i].p,
                       "C14.EnteredWereSent", <<"group", F[i].g, "request", F[i].p>>)
         /\ F[i].k = "idle" =>
              \A g \in Groups :
                 LET ls == LastOf(F, i, "send", g)  le == LastOf(F, i, "enter", g) IN
                 Check(ls # 0 => (le = ls \/ (Running(F, i, g) = 1 /\ le < ls)),
                       "C14.QuiescentLatestApplied", <<"group", g, "lastSent", ls, "lastEntered", le, "event", i>>)
         /\ F[i].k = "final" =>
              \A g \in Groups :
                 Check(LastOf(F, i, "enter", g) = LastOf(F, i, "send", g) /\ Running(F, i, g) = 0,
                       "C14.LastRequestApplied", <<"group", g, "lastSent", LastOf(F, i, "send", g), "lastEntered", LastOf(F, i, "enter", g)>>)

----------------------------------------------------------------------------
(* (b) existential validation against the specification *)
TInit ==
    /\ tid \in 1..Len(TraceLog)
    /\ l = 1 /\ oi = 0
    /\ Init
    /\ ObsChecks

Progress == Say([tid |-> Tr.id, at |-> l'])

Matches(x) ==
    \A g \in Groups :
       /\ x.proc[g] # -1 => ((x.proc[g] = 1) <=> (infl[g].st # "none"))
       /\ x.pend[g] # -1 => x.pend[g] = pend[g]

KeepH == h' = h

ConsumeSend ==
    /\ l <= NL /\ Line.ev = "send"
    /\ Send(Line.g) /\ nsent + 1 = Line.p /\ KeepH
    /\ l' = l + 1 /\ oi' = 0 /\ UNCHANGED tid /\ Progress

ConsumeResolve ==
    /\ l <= NL /\ Line.ev = "resolve"
    /\ Resolve(Line.g, Line.o) /\ KeepH
    /\ l' = l + 1 /\ oi' = 0 /\ UNCHANGED tid /\ Progress

IterSilent ==
    /\ l <= NL /\ Line.ev = "iter"
    /\ (ActorRecv \/ \E g \in Groups : Callback(g)) /\ KeepH
    /\ UNCHANGED <<tid, l, oi>>

IterObserved ==
    /\ l <= NL /\ Line.ev = "iter" /\ oi < Len(Line.obs)
    /\ LET o == Line.obs[oi + 1] IN
         \/ o.k = "enter" /\ Enter(o.g) /\ infl[o.g].p = o.p
         \/ o.k = "exit" /\ Exit(o.g) /\ infl[o.g].p = o.p
         \/ o.k = "resolve" /\ Resolve(o.g, o.o)
    /\ KeepH
    /\ oi' = oi + 1 /\ UNCHANGED <<tid, l>>

IterEnd ==
    /\ l <= NL /\ Line.ev = "iter" /\ oi = Len(Line.obs)
    /\ Matches(Line)
    /\ Line.idle => Quiescent
    /\ l' = l + 1 /\ oi' = 0 /\ UNCHANGED <<vars, tid>> /\ Progress

ConsumeRestart ==
    /\ l <= NL /\ Line.ev = "restart"
    /\ Restart /\ KeepH
    /\ l' = l + 1 /\ oi' = 0 /\ UNCHANGED tid /\ Progress

ConsumeFinal ==
    /\ l <= NL /\ Line.ev = "final"
    /\ Quiescent /\ \A g \in Groups : infl[g].st = "none" /\ pend[g] = 0
    /\ l' = l + 1 /\ oi' = 0 /\ UNCHANGED <<vars, tid>> /\ Progress
    /\ (l' > NL) => Say([tid |-> Tr.id, done |-> TRUE])

TNext == ConsumeSend \/ ConsumeResolve \/ IterSilent \/ IterObserved \/ IterEnd \/ ConsumeRestart \/ ConsumeFinal

\* the spec's own invariants are evaluated in every state of every matching behaviour
TraceInv == NoOverlap /\ PendingIsLatest
=============================================================================
