----------------------------- MODULE PowerPath -----------------------------
(* X02 (extension beyond the 20 listed properties): the END-TO-END power path *)
(*                                                                            *)
(*   actors --Proposal--> PowerManagingActor --Request--> PowerDistributing-  *)
(*   Actor --distribute_power--> BatteryManager / PVManager --set_power-->    *)
(*   microgrid API;   Result --> PowerManagingActor --_Report--> actors       *)
(*                                                                            *)
(* This module is a COMPOSITION, nothing of the parts is transcribed again:   *)
(*   * the manager of one component group is PowerManager.tla (EXTENDS): its  *)
(*     state (R, O, sys, lastPartial, last, rep) and its event handlers       *)
(*     RegProposal / OpProposal / BoundsUpdate / Result, which in turn take   *)
(*     the targets from MatryoshkaOps (C03 / C04 / C11);                      *)
(*   * the distributor's slot per component group is PowerDistributor.tla     *)
(*     (INSTANCE PD, one group): Send / ActorRecv / Enter / Resolve / Exit /  *)
(*     Callback with its variables chan, infl, pend, ... (C14);               *)
(*   * the component manager is ABSTRACT: a distribution of request p under   *)
(*     component bounds comp issues one set_power call per inverter whose     *)
(*     set-points sum to  Clamp(p, comp) = p - excess  (what C01 / C15 / C17  *)
(*     establish for the real algorithms), every call ends ok / failed /      *)
(*     without reply before the timeout, the Result carries succeeded,        *)
(*     failed and excess power.                                               *)
(* The glue is new: the k-th Request the manager sends is request id k of the *)
(* distributor (PowerManager's history variable reqs: reqs[k] = its power),   *)
(* the Result of a distribution travels on                                    *)
(* the results channel rq to the manager's Result handler, the component data *)
(* (comp) changes first and the pool streams the new bounds to the manager    *)
(* afterwards, so a request may be distributed under bounds the manager has   *)
(* not seen yet (that is where excess power comes from).                      *)
(*                                                                            *)
(* X02 clauses at design level (invariants below):                            *)
(*   CurIsSentRequest, SetpointsSumToRequestMinusExcess, ResultsReferToSent,  *)
(*   SentIsSum / SentInBounds (C11, on the composed behaviours), PD!NoOverlap *)
(*   / PD!PendingIsLatest (C14, on the composed behaviours), LastSentIsTarget,*)
(*   InForceWithinBounds, FinalCommandedIsTarget, NotStuck; liveness          *)
(*   EventuallyQuiescent.                                                     *)
(* The same clauses are evaluated on recorded executions of the real actors   *)
(* in PowerPathTrace.                                                         *)
(*                                                                            *)
(* Units: the manager's side (proposals, targets, bounds, reqs) is in model   *)
(* units (W); the distributor's side (comp, cur, rq, cmd) is in recorded      *)
(* units = model units * Unit (model checking: Unit = 1; traces: mW, 1000).   *)
EXTENDS PowerManager

CONSTANTS NInv,       \* inverters of the pool = set_power calls per distribution
          MaxProp,    \* proposals the actors make in one behaviour
          MaxComp,    \* component-data changes in one behaviour
          MaxTimeout, \* API timeouts in one behaviour
          MaxReqs,    \* bound on the requests the manager sends (model only)
          Unit, Tol

VARIABLES chan, infl, pend, nsent, lastSent, lastRecv, lastEntered, nrun,   \* PowerDistributor.tla
          \* (reqs is PowerManager's: reqs[k] = power of the k-th Request the manager sent, model units,
          \*  appended by its Handle; request id k of the distributor is its index in reqs)
          comp,      \* [lo, hi]: component bounds the component manager distributes under
          cur,       \* the distribution in progress (NoCur: none)
          rq,        \* results channel distributor -> manager
          cmd,       \* the last distribution whose calls all ended
          cnt        \* [prop, comp, to]: environment actions taken (bounds the model)

PD == INSTANCE PowerDistributor WITH Groups <- {1}, MaxReq <- MaxReqs, h <- <<>>, nrestart <- 0, MaxRestart <- 0

pmv == <<R, O, sys, clock, lastPartial, last, rep>>
pdv == <<chan, infl, pend, nsent, lastSent, lastRecv, lastEntered, nrun>>
gluev == <<reqs, comp, cur, rq, cmd, cnt>>      \* reqs: declared in PowerManager, kept whole in the view here
ppvars == <<pmv, pdv, gluev, h>>
PPView == <<pmv, pdv, gluev>>
PPViewD == <<pmv, pdv, gluev, Len(h)>>

Inv == 1..NInv
RECURSIVE SumTo(_, _)
SumTo(f, n) == IF n = 0 THEN 0 ELSE f[n] + SumTo(f, n - 1)
RECURSIVE SumOn(_, _)
SumOn(f, S) == IF S = {} THEN 0 ELSE LET x == CHOOSE y \in S : TRUE IN f[x] + SumOn(f, S \ {x})
Near(a, b) == a - b <= Tol /\ b - a <= Tol
Clamp3(x, lo, hi) == Max2(lo, Min2(x, hi))

----------------------------------------------------------------------------
(* the abstract component manager *)
NoCur == [k |-> 0, p |-> 0, bud |-> 0, called |-> {}, s |-> [c \in Inv |-> 0], out |-> [c \in Inv |-> "none"], fin |-> FALSE, lost |-> FALSE]
NoCmd == [k |-> 0, tot |-> 0, okp |-> 0, fp |-> 0, ex |-> 0, lost |-> FALSE]
CompOf(s) == [lo |-> s.lo * Unit, hi |-> s.hi * Unit]
SysOfComp == [has |-> TRUE, lo |-> comp.lo \div Unit, hi |-> comp.hi \div Unit, xlo |-> 0, xhi |-> 0]

\* distribute_power(request k) starts: what can be set is the request clamped to the component
\* bounds, the rest is excess (remaining_power)
StartCur(k) == LET p == reqs[k] * Unit IN [NoCur EXCEPT !.k = k, !.p = p, !.bud = Clamp3(p, comp.lo, comp.hi)]
Excess(c) == c.p - c.bud
Pending(c) == {i \in c.called : c.out[i] = "pending"}
Failed(c) == {i \in c.called : c.out[i] \in {"err", "to"}}
Oks(c) == {i \in c.called : c.out[i] = "ok"}
AllEnded(c) == c.called = Inv /\ Pending(c) = {}

\* Named deviation (cause predicate): the battery distribution algorithm returned set-points and a
\* remaining power that do NOT add up to the request (the known C01 conservation defects: zero-headroom
\* group with exclusion bound, two inverters behind one battery, ...).  The abstract manager never does
\* that; the trace specification installs it from the recorded DistributionResult (Dist below), so that
\* a conservation failure of the composed path is attributed to C01 and every other failure still fires.
Dev_DistributionLostPower == cur.lost
\* BatteryDistributionAlgorithm.distribute_power returned (set-points s, remaining r) for the request in
\* progress: either it is what the abstract manager does, or it lost power
Dist(s, r) ==
    /\ cur.k # 0 /\ cur.called = {} /\ ~cur.fin
    /\ IF Near(SumTo(s, Len(s)) + r, cur.p)
       THEN Near(cur.p - r, cur.bud) /\ UNCHANGED cur
       ELSE cur' = [cur EXCEPT !.bud = cur.p - r, !.lost = TRUE]

\* the model's canonical split (any split with the right sum is allowed, see Call)
SplitOf(c, i) == IF i < NInv THEN c.bud \div NInv ELSE c.bud - (NInv - 1) * (c.bud \div NInv)

\* set_power(inverter i, p) reaches the API: the LAST call of a distribution makes the sum right
Call(i, p) ==
    /\ cur.k # 0 /\ ~cur.fin /\ i \in Inv \ cur.called
    /\ (cur.called \cup {i} = Inv) => (Near(SumOn(cur.s, cur.called) + p, cur.bud) \/ Dev_DistributionLostPower)
    /\ cur' = [cur EXCEPT !.called = @ \cup {i}, !.s[i] = p, !.out[i] = "pending"]

\* the API answers call i (o = "ok" | "err"), or the call is cancelled at the timeout ("to")
Reply(i, o) ==
    /\ cur.k # 0 /\ i \in Pending(cur)
    /\ cur' = [cur EXCEPT !.out[i] = o]

ResultOf(c) ==
    [k |-> c.k,
     type |-> IF Failed(c) = {} THEN "Success" ELSE "PartialFailure",
     sp |-> c.bud - SumOn(c.s, Failed(c)),          \* request - excess - failed
     fp |-> SumOn(c.s, Failed(c)),
     ex |-> Excess(c)]
KindOf(t) == IF t = "Success" THEN "success" ELSE IF t = "PartialFailure" THEN "partial" ELSE "error"

----------------------------------------------------------------------------
(* composed actions (without history) *)

\* the manager's handler has run (it appended what it sent to reqs): a Request it sent is the
\* distributor's next request id
SendGlue ==
    IF last'.sent # None
    THEN PD!Send(1)
    ELSE UNCHANGED pdv

PReg(q) == /\ sys.has /\ RegProposal(q) /\ SendGlue
           /\ cnt' = [cnt EXCEPT !.prop = @ + 1] /\ UNCHANGED <<comp, cur, rq, cmd>>
POp(q) == /\ sys.has /\ OpProposal(q) /\ SendGlue
          /\ cnt' = [cnt EXCEPT !.prop = @ + 1] /\ UNCHANGED <<comp, cur, rq, cmd>>
\* the pool streams bounds s to the manager's bounds tracker
PBounds(s) == /\ BoundsUpdate(s) /\ SendGlue /\ UNCHANGED <<comp, cur, rq, cmd, cnt>>
\* the manager takes the next Result from the results channel; it answers request Head(rq).k, which
\* was sent Len(reqs) - k requests before the latest one (late results: the targets may have moved on)
BackOf(k) == Len(reqs) - k
PGot == /\ rq # <<>> /\ Answerable(BackOf(Head(rq).k))
        /\ Result(KindOf(Head(rq).type), BackOf(Head(rq).k)) /\ SendGlue
        /\ rq' = Tail(rq) /\ UNCHANGED <<comp, cur, cmd, cnt>>

\* new component data reaches the component manager's caches
PComp(c) == /\ comp' = c /\ UNCHANGED <<pmv, pdv, reqs, cur, rq, cmd>>

PRecv == PD!ActorRecv /\ UNCHANGED <<pmv, gluev>>
PEnter == /\ PD!Enter(1) /\ cur' = StartCur(infl[1].p)
          /\ UNCHANGED <<pmv, reqs, comp, rq, cmd, cnt>>
PDist(s, r) == /\ infl[1].st = "running" /\ Dist(s, r)
               /\ UNCHANGED <<pmv, pdv, reqs, comp, rq, cmd, cnt>>
PCall(i, p) == /\ infl[1].st = "running" /\ Call(i, p)
               /\ UNCHANGED <<pmv, pdv, reqs, comp, rq, cmd, cnt>>
PReply(i, o) == Reply(i, o) /\ UNCHANGED <<pmv, pdv, reqs, comp, rq, cmd, cnt>>
\* every call has ended: the Result is sent, distribute_power is about to return
PFinish == /\ cur.k # 0 /\ ~cur.fin /\ AllEnded(cur)
           /\ PD!Resolve(1, "ok")
           /\ rq' = Append(rq, ResultOf(cur))
           /\ cmd' = [k |-> cur.k, tot |-> SumOn(cur.s, Inv), okp |-> SumOn(cur.s, Oks(cur)),
                      fp |-> SumOn(cur.s, Failed(cur)), ex |-> Excess(cur), lost |-> cur.lost]
           /\ cur' = [cur EXCEPT !.fin = TRUE]
           /\ UNCHANGED <<pmv, reqs, comp, cnt>>
PExit == /\ cur.fin /\ PD!Exit(1) /\ cur' = NoCur
         /\ UNCHANGED <<pmv, reqs, comp, rq, cmd, cnt>>
PCallback == PD!Callback(1) /\ UNCHANGED <<pmv, gluev>>

----------------------------------------------------------------------------
(* model: initial state, history, Next *)
CompSet == {CompOf(s) : s \in SysSet}

PPInitWith(c) ==
    /\ R = EmptyGroup /\ O = EmptyGroup /\ sys = NoSysRec      \* _add_system_bounds_tracker: no bounds yet
    /\ clock = 0 /\ lastPartial = FALSE
    /\ last = [Idle EXCEPT !.kind = "none"] /\ rep = [r |-> None, o |-> None]
    /\ h = <<[a |-> "init", lo |-> c.lo \div Unit, hi |-> c.hi \div Unit]>>    \* the initial choice is part of the behaviour
    /\ PD!Init
    /\ reqs = <<>> /\ comp = c /\ cur = NoCur /\ rq = <<>> /\ cmd = NoCmd
    /\ cnt = [prop |-> 0, comp |-> 0, to |-> 0]
PPInit == \E c \in CompSet : PPInitWith(c)

Gen == Mode = "mc" \/ Guard
Keep == h' = h
LogI(n) == h' = (IF Mode \in {"history", "sim"} THEN Append(h, [a |-> "int", n |-> n]) ELSE h)
Pick(S) == IF Mode = "sim" THEN {RandomElement(S)} ELSE S

\* environment: the actors
RegPStep == Gen /\ cnt.prop < MaxProp /\ (\E q \in Pick(RegSet) : PReg(q)) /\ EmitRule
OpPStep == Gen /\ cnt.prop < MaxProp /\ (\E q \in Pick(OpSet) : POp(q)) /\ EmitRule
\* environment: the components report new bounds; the pool streams them on (afterwards)
CompStep == /\ Gen /\ cnt.comp < MaxComp /\ CompSet \ {comp} # {}
            /\ \E c \in Pick(CompSet \ {comp}) :
                 /\ PComp(c) /\ cnt' = [cnt EXCEPT !.comp = @ + 1]
                 /\ h' = Append(h, [a |-> "comp", lo |-> c.lo \div Unit, hi |-> c.hi \div Unit])
            /\ EmitRule
PoolStep == Gen /\ sys # SysOfComp /\ PBounds(SysOfComp) /\ EmitRule
\* environment: the microgrid API
ReplyStep == /\ Gen /\ Pending(cur) # {}
             /\ \E i \in Pick(Pending(cur)), o \in Pick({"ok", "err"}) :
                  PReply(i, o) /\ h' = Append(h, [a |-> "reply", c |-> i, o |-> o])
             /\ EmitRule
\* api_power_request_timeout passes while calls are pending: all of them are cancelled
TimeoutStep == /\ Gen /\ cnt.to < MaxTimeout
               /\ cur.k # 0 /\ cur.called = Inv /\ Pending(cur) # {}
               /\ cur' = [cur EXCEPT !.out = [i \in Inv |-> IF cur.out[i] = "pending" THEN "to" ELSE cur.out[i]]]
               /\ cnt' = [cnt EXCEPT !.to = @ + 1]
               /\ UNCHANGED <<pmv, pdv, reqs, comp, rq, cmd>>
               /\ h' = Append(h, [a |-> "timeout"])
               /\ EmitRule
\* internal steps of the two actors
GotStep == Gen /\ PGot /\ EmitRule
RecvStep == Gen /\ PRecv /\ LogI("recv") /\ EmitRule
EnterStep == Gen /\ PEnter /\ LogI("enter") /\ EmitRule
CallStep == /\ Gen /\ cur.k # 0
            /\ LET i == CHOOSE j \in Inv \ cur.called : \A m \in Inv \ cur.called : j <= m
               IN cur.called # Inv /\ PCall(i, SplitOf(cur, i))
            /\ LogI("call") /\ EmitRule
FinishStep == Gen /\ PFinish /\ LogI("finish") /\ EmitRule
ExitStep == Gen /\ PExit /\ LogI("exit") /\ EmitRule
CallbackStep == Gen /\ PCallback /\ LogI("callback") /\ EmitRule

PPNext == RegPStep \/ OpPStep \/ CompStep \/ PoolStep \/ ReplyStep \/ TimeoutStep \/ GotStep
          \/ RecvStep \/ EnterStep \/ CallStep \/ FinishStep \/ ExitStep \/ CallbackStep

\* simulation: a behaviour is emitted when it reaches the depth bound or when nothing more can happen
PPDone == /\ chan = <<>> /\ rq = <<>> /\ infl[1].st = "none" /\ pend[1] = 0 /\ cur.k = 0 /\ sys = SysOfComp
          /\ cnt.prop = MaxProp /\ (cnt.comp = MaxComp \/ CompSet \ {comp} = {})
PPSimEmit == (Mode = "sim" /\ (Len(h) = MaxDepth \/ PPDone)) => Emit(h)

PPSpec == PPInit /\ [][PPNext]_ppvars
\* the API answers or the timeout strikes; the pool streams; the actors' internal steps run
PPFairSpec ==
    /\ PPSpec
    /\ WF_ppvars(PoolStep) /\ WF_ppvars(GotStep) /\ WF_ppvars(RecvStep) /\ WF_ppvars(EnterStep)
    /\ WF_ppvars(CallStep) /\ WF_ppvars(FinishStep) /\ WF_ppvars(ExitStep) /\ WF_ppvars(CallbackStep)
    /\ WF_ppvars(ReplyStep)

----------------------------------------------------------------------------
(* X02, design level *)

\* the distribution in progress is for a request the manager sent, and it is the distributor's
\* in-flight request
CurIsSentRequest ==
    cur.k # 0 => /\ cur.k \in 1..nsent /\ cur.k = infl[1].p /\ infl[1].st = "running"
                 /\ cur.p = reqs[cur.k] * Unit
\* the set-points of one distribution add up to the request minus the reported excess
SetpointsSumToRequestMinusExcess ==
    /\ (cur.k # 0 /\ cur.called = Inv) => (Near(SumOn(cur.s, Inv) + Excess(cur), reqs[cur.k] * Unit) \/ Dev_DistributionLostPower)
    /\ cmd.k # 0 => (Near(cmd.tot + cmd.ex, reqs[cmd.k] * Unit) \/ cmd.lost)
\* every Result on its way to the manager refers to a request the manager sent and accounts for it
ResultsReferToSent ==
    \A j \in DOMAIN rq : /\ rq[j].k \in 1..nsent
                         /\ Near(rq[j].sp + rq[j].fp + rq[j].ex, reqs[rq[j].k] * Unit)
\* the latest Request is the sum of the targets the actors were told last
LastSentIsTarget == nsent > 0 => reqs[nsent] = Val(rep.r) + Val(rep.o)
\* ... and the Request in force lies within the latest bounds the pool streamed (after a bounds update the
\* manager recomputes both targets; whenever their sum changes a new Request replaces the one in force)
InForceWithinBounds == (nsent > 0 /\ sys.has) => (sys.lo <= reqs[nsent] /\ reqs[nsent] <= sys.hi)
\* requests are numbered in the order they are sent
ReqsAreSends == Len(reqs) = nsent /\ cmd.k <= nsent /\ lastEntered[1] <= nsent /\ nsent < MaxReqs

\* nothing is in progress anywhere
PPQuiescent == /\ chan = <<>> /\ rq = <<>> /\ infl[1].st = "none" /\ pend[1] = 0 /\ cur.k = 0
               /\ sys = SysOfComp
\* ... then the last commanded total is the last target, modulo reported excess / failed power
FinalCommandedIsTarget ==
    (PPQuiescent /\ nsent > 0) =>
        LET tgt == (Val(rep.r) + Val(rep.o)) * Unit IN
        /\ cmd.k = nsent /\ lastEntered[1] = nsent
        /\ Near(cmd.tot + cmd.ex, tgt) \/ cmd.lost
        /\ Near(cmd.okp + cmd.fp + cmd.ex, tgt) \/ cmd.lost
\* whenever something is in progress, one of the internal steps or an API answer is possible
NotStuck ==
    PPQuiescent \/ sys # SysOfComp \/ chan # <<>> \/ rq # <<>>
    \/ infl[1].st \in {"created", "finished"}
    \/ (infl[1].st = "running" /\ cur.k # 0 /\ (cur.called # Inv \/ Pending(cur) # {} \/ AllEnded(cur)))
\* liveness (PPFairSpec): the system comes to rest, and by FinalCommandedIsTarget with the right command
EventuallyQuiescent == <>[]PPQuiescent

\* the deviation exists only in recorded executions, never in the model
NoDeviationInModel == Mode # "trace" => (~cur.lost /\ ~cmd.lost)
PPTypeOK == /\ cur.k = 0 => cur = NoCur
            /\ \A j \in DOMAIN rq : rq[j].type \in {"Success", "PartialFailure"}
=============================================================================
