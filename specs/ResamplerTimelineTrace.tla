---------------------- MODULE ResamplerTimelineTrace ----------------------
(* Conformance of the real Resampler with ResamplerTimeline.tla (C07).       *)
(*                                                                            *)
(* Input (ndjson, IOEnv.TRACE_FILE), one object per line:                     *)
(*   id, steps = the history TLC generated (create / add / pass / fire /      *)
(*   resample / finish / stop / sinkfail / recover records), each extended    *)
(*   with                                                                     *)
(*     obs.rec   per series, the timestamps (exact integer microseconds since  *)
(*               the harness's epoch) its sink was handed so far by the real  *)
(*               Resampler running on the virtual clock                       *)
(*     obs.jn    per series, how many timestamps series 1 had been handed     *)
(*               when the series was added (None = not added yet)             *)
(*     obs.lf    per series, how many timestamps series 1 had been handed     *)
(*               when the harness closed its source / armed its sink to       *)
(*               raise (None = healthy)                                       *)
(*     obs.failed  the series named by the ResamplingError resample() ended   *)
(*               with (empty otherwise)                                       *)
(*     obs.pending  how many sink calls have not returned yet                 *)
(*     obs.dead  the task running Resampler.resample() has ended, obs.err     *)
(*               the name of the exception it ended with                      *)
(* The spec actions are re-executed on the recorded arguments.  Whenever the  *)
(* spec is in a quiescent state (the harness has run the real loop until      *)
(* nothing was ready) every clause of C07 is evaluated by TLC on the          *)
(* timestamps the CODE produced, and the recorded sequences are compared      *)
(* with the spec's emitted sequences (C07.Timeline: the property leaves the   *)
(* choice of the first tick inside [created, created + 2P] open, so a         *)
(* difference there alone is reported as a disagreement with the transcribed  *)
(* _calculate_window_end, not as a violation).  A false clause is written to  *)
(* IOEnv.VERDICT_FILE and the trace continues.                                *)
EXTENDS ResamplerTimeline, TLCExt

VARIABLES tid, l
tvars == <<vars, tid, l>>

\* TLCEval: parse the file once (a lazily evaluated definition would re-read it at every use)
TraceLog == TLCEval(ndJsonDeserialize(IOEnv.TRACE_FILE))
Tr == TraceLog[tid]

Say(v) == CSVWrite("%1$s", <<ToJson(v)>>, IOEnv.VERDICT_FILE)
Fail(clause, detail, devs) == Say([tid |-> Tr.id, l |-> l, clause |-> clause, detail |-> detail, deviations |-> devs])
Check(ok, clause, detail) == IF ok THEN TRUE ELSE Fail(clause, detail, <<>>)

\* clauses on one observation o, against the spec state after the action (c, al, tk, jn)
ObsChecks(o, c, al, tk, jn, lf) ==
    LET ref == AlignRef(al, c)
        rec == [s \in Series |-> o.rec[s]]
    IN
    /\ \A s \in Series :
         /\ Check(AlignedSeq(rec[s], ref), "C07.Aligned", <<"series", s, "got", rec[s], "align_ref", ref>>)
         /\ Check(ConsecutiveSeq(rec[s]), "C07.Consecutive", <<"series", s, "got", rec[s]>>)
         /\ Check(jn[s] = 0 => FirstTickWindowSeq(rec[s], c), "C07.FirstTickWindow",
                  <<"series", s, "got", rec[s], "created", c>>)
         /\ Check(rec[s] = EmittedOf(tk, jn, lf, s), "C07.Timeline",
                  <<"series", s, "got", rec[s], "expected", EmittedOf(tk, jn, lf, s)>>)
    \* o.jn[s]: how many timestamps series 1 had been handed when the harness added series s
    \* o.lf[s]: how many it had been handed when series s broke; a series that broke is handed
    \* nothing more, every other one exactly what series 1 is handed - across failures of others
    /\ Check(SameForAll(rec) /\ \A s \in Series : o.jn[s] # None =>
                 rec[s] = SubSeq(rec[1], o.jn[s] + 1, IF o.lf[s] = None THEN Len(rec[1]) ELSE o.lf[s]),
             "C07.SameForAllSeries", <<"got", o.rec, "added_after", o.jn, "broke_after", o.lf>>)

TInit ==
    /\ tid \in 1..Len(TraceLog)
    /\ l = 1
    /\ Init

Done == Say([tid |-> Tr.id, done |-> TRUE])

TStep ==
    /\ l <= Len(Tr.steps)
    /\ LET r == Tr.steps[l] IN
       /\ IF r.a = "create" THEN Create(r.c, r.off, r.align)
          ELSE IF r.a = "add" THEN AddSeries(r.s)
          ELSE IF r.a = "pass" THEN TimePass
          ELSE IF r.a = "fire" THEN TimerFire
          ELSE IF r.a = "resample" THEN Resample(r.lat)
          ELSE IF r.a = "finish" THEN Finish
          ELSE IF r.a = "stop" THEN SourceStops(r.s)
          ELSE IF r.a = "sinkfail" THEN SinkRaises(r.s)
          ELSE IF r.a = "recover" THEN Recover
          ELSE FALSE
       /\ Quiescent(phase') => ObsChecks(r.obs, created', alignTo', ticks', joined', left')
       \* the harness has just run the real loop until nothing was ready, at an instant at which
       \* no timer is overdue and no sink is pending: every tick that is due must have been made
       /\ (r.a \in {"create", "fire", "resample", "finish", "recover"} /\ phase' = "sleep" /\ now' < nextTick'
             /\ r.obs.pending = 0 /\ ~r.obs.dead) =>
             Check(CaughtUpSeq(r.obs.rec[1], created', now'), "C07.CaughtUp",
                   <<"now", now', "created", created', "series 1 got", r.obs.rec[1]>>)
       \* resample() must still be running - except that the Finish of a tick in which a series
       \* failed ends it with ResamplingError (documented; the client recovers in the next step).
       \* When it ended otherwise, the verdict line names the cause if a series had been added to
       \* the pending gather (the defect repaired in /repo 9f8dfea).  The harness recovers a dead
       \* loop after taking the observation, so the remaining steps are still checked.
       \* (The real loop runs a whole chain finish-fire-resample-finish in one go, so the error may
       \* already be observed while the spec is still in a transient state of that chain; it is
       \* judged where the spec's own Finish raises, or at the next quiescent state.)
       /\ (Quiescent(phase') \/ phase' = "raised" \/ (r.a = "finish" /\ r.obs.err # "ResamplingError")) =>
             (IF ~r.obs.dead \/ (phase' = "raised" /\ r.obs.err = "ResamplingError") THEN TRUE
              ELSE Fail("C07.LoopAlive", <<"resample() ended with", r.obs.err>>,
                        IF r.a = "finish" /\ Dev_AddDuringGather THEN <<"Dev_AddDuringGather">> ELSE <<>>))
       \* the transcription says which series the error names (reported as a disagreement only)
       /\ phase' = "raised" =>
             Check(r.obs.dead /\ {r.obs.failed[i] : i \in 1..Len(r.obs.failed)} = failed',
                   "C07.FailureReport", <<"error names", r.obs.failed, "transcription", failed', "ended with", r.obs.err>>)
    /\ l' = l + 1 /\ UNCHANGED tid
    /\ (l' > Len(Tr.steps)) => Done

TNext == TStep
=============================================================================
