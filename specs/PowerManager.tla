---------------------------- MODULE PowerManager ----------------------------
(* The power manager of ONE component group                                   *)
(*   src/frequenz/sdk/microgrid/_power_managing/_power_managing_actor.py      *)
(* two Matryoshka priority resolvers (regular actors / operating-point        *)
(* actors) over the same components, the latest system bounds, and the        *)
(* request that is handed to the power distributor.                           *)
(*                                                                            *)
(* The resolver itself is NOT re-transcribed: Target / StatusBounds come from *)
(* MatryoshkaOps (conformance of those with the real class is C03 / C04).     *)
(* What is transcribed here is the manager's own bookkeeping:                 *)
(*   Calc          Matryoshka.calculate_target_power  (bucket, memo, and the  *)
(*                 "None = unchanged" return convention)                      *)
(*   Shifted       _calculate_shifted_bounds                                  *)
(*   CalcTarget    _calculate_target_power with its three branches            *)
(*   Combine       the three return statements at its end                     *)
(* and one action per event handler of _run / _bounds_tracker.                *)
(*                                                                            *)
(* C11  SentIsSum     every request = target reported to the regular actors   *)
(*                    + target reported to the operating-point actors         *)
(*      SentInBounds  every request lies in the latest inclusion bounds       *)
EXTENDS MatryoshkaOps, TLC, Json, CSV, IOUtils

CONSTANTS MaxAge,     \* a proposal is dropped when clock - t > MaxAge   (60 s; one tick = 40 s)
          MaxClock,   \* bound on the clock (model only)
          MaxDepth,   \* bound on history length
          XG,         \* exclusion bounds range over -XG..0 / 0..XG in the full alphabet
          SysAlpha,   \* sequence of system-bounds records a BoundsUpdate may deliver (<<>> = all)
          RegAlpha,   \* sequence of [who, pref, lo, hi] a regular actor may propose  (<<>> = all)
          OpAlpha,    \* same for the operating-point actors                          (<<>> = all)
          MaxBack,    \* a distribution result may answer the latest request or any of the MaxBack before it
          Fixed,      \* TRUE: the design as repaired by /repo 52a89e3 (the primary model).
                      \* FALSE: the design before that repair (kept for the named deviation)
          Mode        \* "history": one emitted history per transition; "sim": tlc -simulate; "trace"

VARIABLES R,            \* regular group      [b: bucket, c: bucket exists, m: _target_power memo]
          O,            \* operating-point group, same shape
          sys,          \* _system_bounds[ids]: latest bounds received
          clock,
          lastPartial,  \* last_result_partial_failure
          last,         \* what the last event handler computed and sent (intermediate values)
          rep,          \* targets carried by the latest reports  [r |-> regular, o |-> operating point]
          reqs,         \* powers of all requests sent so far, oldest first (history variable: the view
                        \* keeps only which of the answerable older requests differ from the latest)
          h             \* history of events (hidden by VIEW)

vars == <<R, O, sys, clock, lastPartial, last, rep, reqs, h>>
\* OlderDiffers[b]: the request sent b requests before the latest exists and asked for another power
\* (a late result for it is then a result for a request the targets have moved away from)
OlderDiffers == [b \in 1..MaxBack |-> Len(reqs) > b /\ reqs[Len(reqs) - b] # reqs[Len(reqs)]]
View == <<R, O, sys, clock, lastPartial, last, rep, OlderDiffers>>
\* for runs with several workers: the depth bound reads h, so the depth belongs to the view there
\* (otherwise which states get expanded depends on the workers' timing)
ViewD == <<R, O, sys, clock, lastPartial, last, rep, OlderDiffers, Len(h)>>

SeqRange(s) == {s[i] : i \in DOMAIN s}

NoSysRec == [has |-> FALSE, lo |-> 0, hi |-> 0, xlo |-> 0, xhi |-> 0]
FullSys == {s \in [has : BOOLEAN, lo : -G..0, hi : 0..G, xlo : -XG..0, xhi : 0..XG] :
              /\ (s.has => s.lo <= s.xlo /\ s.xhi <= s.hi)
              /\ (~s.has => s.lo = 0 /\ s.hi = 0)}
FullProp == {q \in [who : Actors, pref : OptGrid, lo : OptGrid, hi : OptGrid] :
               (q.lo # None /\ q.hi # None) => q.lo <= q.hi}
SysSet == IF SysAlpha = <<>> THEN FullSys ELSE SeqRange(SysAlpha)
RegSet == IF RegAlpha = <<>> THEN FullProp ELSE SeqRange(RegAlpha)
OpSet  == IF OpAlpha = <<>> THEN FullProp ELSE SeqRange(OpAlpha)

\* SystemBounds(inclusion_bounds=None, exclusion_bounds=None)
NoSys(s) == ~s.has /\ ~HasExcl(s)
SysRec(s) == [a |-> "bounds", has |-> s.has, lo |-> s.lo, hi |-> s.hi, xlo |-> s.xlo, xhi |-> s.xhi]

EmitOn == "OUT_FILE" \in DOMAIN IOEnv
Emit(v) == IF EmitOn THEN CSVWrite("%1$s", <<ToJson(v)>>, IOEnv.OUT_FILE) ELSE TRUE

Val(x) == IF x = None THEN 0 ELSE x

----------------------------------------------------------------------------
(* Matryoshka.calculate_target_power(ids, proposal, bounds, must_return_power) *)
(* on group g; q.who = 0 stands for proposal = None.  Returns the new group    *)
(* and the returned power (None = "unchanged" / "nothing to calculate").       *)
EmptyBucket == [a \in Actors |-> NoProp]
EmptyGroup == [b |-> EmptyBucket, c |-> FALSE, m |-> None]
NoQ == [who |-> 0]

Calc(g, q, s, must) ==
    IF ~g.c /\ NoSys(s) THEN [g |-> g, ret |-> None]          \* _validate_component_ids fails
    ELSE LET b2 == IF q.who # 0
                   THEN [g.b EXCEPT ![q.who] = [pref |-> q.pref, lo |-> q.lo, hi |-> q.hi, live |-> TRUE, t |-> clock]]
                   ELSE g.b
             c2 == g.c \/ q.who # 0
         IN IF ~c2 THEN [g |-> g, ret |-> None]               \* no bucket: nothing to calculate
            ELSE LET T == Target(b2, s) IN
                 IF must \/ g.m = None \/ g.m # T
                 THEN [g |-> [b |-> b2, c |-> TRUE, m |-> T], ret |-> T]
                 ELSE [g |-> [b |-> b2, c |-> TRUE, m |-> g.m], ret |-> None]   \* unchanged

(* _calculate_shifted_bounds(bounds, op_power) *)
Shifted(s, x) == IF x = None \/ ~s.has THEN s ELSE [s EXCEPT !.lo = s.lo - x, !.hi = s.hi - x]

(* _calculate_target_power(ids, proposal, must_send): r = tgt_power_no_shift, o = tgt_power_shift. *)
(* fx = TRUE: the repaired code; fx = FALSE: the code before 52a89e3.  In the two proposal        *)
(* branches the second group's bounds are shifted by what the first calculation RETURNED; in the   *)
(* branch without proposal the repaired code shifts by the regular group's current target          *)
(* (get_target_power), the old code by the returned value (None when unchanged = no shift).        *)
CalcTarget(kind, q, s, must, fx) ==
    IF kind = "op" THEN                                        \* proposal.set_operating_point
        LET c1 == Calc(O, q, s, must)
            c2 == Calc(R, NoQ, Shifted(s, c1.ret), must)
        IN [R |-> c2.g, O |-> c1.g, r |-> c2.ret, o |-> c1.ret]
    ELSE IF kind = "reg" THEN                                  \* regular proposal
        LET c1 == Calc(R, q, s, must)
            c2 == Calc(O, NoQ, Shifted(s, c1.ret), must)
        IN [R |-> c1.g, O |-> c2.g, r |-> c1.ret, o |-> c2.ret]
    ELSE                                                       \* proposal is None
        LET c1 == Calc(R, NoQ, s, must)
            c2 == Calc(O, NoQ, Shifted(s, IF fx THEN c1.g.m ELSE c1.ret), must)
        IN [R |-> c1.g, O |-> c2.g, r |-> c1.ret, o |-> c2.ret]

(* the return statements of _calculate_target_power; None = no request is sent.                    *)
(* Repaired: a calculation that returned None ("unchanged") is replaced by that group's current    *)
(* target unless both returned None.  Before: the other group's value was returned alone.          *)
Combine(x, fx) ==
    IF x.o # None /\ x.r # None THEN x.o + x.r
    ELSE IF fx /\ (x.o # None \/ x.r # None)
         THEN Val(IF x.o # None THEN x.o ELSE x.O.m) + Val(IF x.r # None THEN x.r ELSE x.R.m)
    ELSE IF x.o # None THEN x.o
    ELSE x.r

Idle == [kind |-> "idle", must |-> FALSE, r |-> None, o |-> None, sent |-> None]

\* _send_updated_target_power(ids, proposal, must_send) followed by _send_reports(ids)
Handle(kind, q, s, must) ==
    LET x == CalcTarget(kind, q, s, must, Fixed) IN
    /\ R' = x.R /\ O' = x.O
    /\ last' = [kind |-> kind, must |-> must, r |-> x.r, o |-> x.o, sent |-> Combine(x, Fixed)]
    /\ rep' = [r |-> x.R.m, o |-> x.O.m]
    /\ reqs' = IF Combine(x, Fixed) = None THEN reqs ELSE Append(reqs, Combine(x, Fixed))

\* _send_reports(ids) alone
ReportOnly == /\ last' = Idle /\ rep' = [r |-> R.m, o |-> O.m] /\ UNCHANGED <<R, O, reqs>>

----------------------------------------------------------------------------
Init ==
    /\ R = EmptyGroup /\ O = EmptyGroup
    /\ sys \in SysSet \cup {NoSysRec}
    /\ clock = 0 /\ lastPartial = FALSE
    /\ last = [Idle EXCEPT !.kind = "none"]
    /\ rep = [r |-> None, o |-> None]
    /\ reqs = <<>>
    /\ h = <<SysRec(sys)>>

\* _run: a proposal from a regular actor (must_send = TRUE)
RegProposal(q) ==
    /\ Handle("reg", q, sys, TRUE)
    /\ UNCHANGED <<sys, clock, lastPartial>>
    /\ h' = Append(h, [a |-> "reg", who |-> q.who, pref |-> q.pref, lo |-> q.lo, hi |-> q.hi])

\* _run: a proposal from an operating-point actor (must_send = TRUE)
OpProposal(q) ==
    /\ Handle("op", q, sys, TRUE)
    /\ UNCHANGED <<sys, clock, lastPartial>>
    /\ h' = Append(h, [a |-> "op", who |-> q.who, pref |-> q.pref, lo |-> q.lo, hi |-> q.hi])

\* _bounds_tracker: new system bounds (wider, narrower, shifted or the same again);
\* _send_updated_target_power(ids, None) with must_send = FALSE
BoundsUpdate(s) ==
    /\ sys' = s
    /\ Handle("none", NoQ, s, FALSE)
    /\ UNCHANGED <<clock, lastPartial>>
    /\ h' = Append(h, SysRec(s))

\* _run: a result from the power distributor for the request sent `back` requests before the latest
\* one (0 = the latest).  Results can be late: the distributor answers every request it started, and
\* proposals / bounds updates may have moved the targets since.  The design does not look at the
\* answered request's power: on the first PartialFailure it recomputes the CURRENT regular +
\* operating-point target (must_send), so the effect does not depend on `back`.
Answerable(back) == back = 0 \/ back < Len(reqs)
Result(k, back) ==
    /\ IF k = "partial" /\ ~lastPartial
       THEN lastPartial' = TRUE /\ Handle("none", NoQ, sys, TRUE)
       ELSE /\ lastPartial' = (IF k = "success" THEN FALSE ELSE lastPartial)
            /\ ReportOnly
    /\ UNCHANGED <<sys, clock>>
    /\ h' = Append(h, [a |-> "result", k |-> k, back |-> back])

\* time passes (one tick = 40 s); the 1 s drop_old_proposals timer has removed what is too old.
\* Nothing is recalculated, sent or reported.
DropOld(g) == [g EXCEPT !.b = [a \in Actors |-> IF g.b[a].live /\ clock' - g.b[a].t > MaxAge THEN NoProp ELSE g.b[a]]]
Tick ==
    /\ clock < MaxClock
    /\ clock' = clock + 1
    /\ R' = DropOld(R) /\ O' = DropOld(O)
    /\ last' = Idle
    /\ UNCHANGED <<sys, lastPartial, rep, reqs>>
    /\ h' = Append(h, [a |-> "tick"])

Guard == Mode \in {"history", "sim"} /\ Len(h) < MaxDepth
EmitRule == Mode = "history" => Emit(h')
Results == {"success", "partial", "error"}

RegStep == /\ Guard
           /\ IF Mode = "sim" THEN LET q == RandomElement(RegSet) IN RegProposal(q)
              ELSE \E q \in RegSet : RegProposal(q)
           /\ EmitRule
OpStep == /\ Guard
          /\ IF Mode = "sim" THEN LET q == RandomElement(OpSet) IN OpProposal(q)
             ELSE \E q \in OpSet : OpProposal(q)
          /\ EmitRule
BoundsStep == /\ Guard
              /\ IF Mode = "sim" THEN LET s == RandomElement(SysSet) IN BoundsUpdate(s)
                 ELSE \E s \in SysSet : BoundsUpdate(s)
              /\ EmitRule
\* exhaustive mode: late results (back > 0) only for PartialFailure, the one kind whose handling sends
ResultStep == /\ Guard
              /\ IF Mode = "sim"
                 THEN LET k == RandomElement(Results)
                          b == RandomElement(0..MaxBack)
                      IN Result(k, IF Answerable(b) THEN b ELSE 0)
                 ELSE \E k \in Results, b \in 0..MaxBack :
                         (b = 0 \/ k = "partial") /\ Answerable(b) /\ Result(k, b)
              /\ EmitRule
TickStep == Guard /\ Tick /\ EmitRule
SimEmit == (Mode = "sim" /\ Len(h) = MaxDepth) => Emit(h)

Next == RegStep \/ OpStep \/ BoundsStep \/ ResultStep \/ TickStep

Spec == Init /\ [][Next]_vars

----------------------------------------------------------------------------
(* C11 *)
SentIsSumOf(sent, rr, ro) == sent # None => sent = Val(rr) + Val(ro)
SentInBoundsOf(sent, s) == (sent # None /\ s.has) => (s.lo <= sent /\ sent <= s.hi)

SentIsSum == SentIsSumOf(last.sent, rep.r, rep.o)
SentInBounds == SentInBoundsOf(last.sent, sys)

(* Named deviation: the behaviour of the code before /repo 52a89e3 (repaired).  *)
(* In the branch without a proposal and without must_send (a bounds update),   *)
(* exactly one of the two calculations returned None meaning "unchanged" while *)
(* that group does have a target: the old return statements then handed back   *)
(* the other group's target ALONE, the unchanged group's target was dropped.   *)
(* DevUnchangedOf is the CAUSE predicate (it also describes, in the repaired   *)
(* design, exactly the situations in which a current target is substituted);   *)
(* the deviation itself exists only in the old design (Fixed = FALSE).  The    *)
(* trace specification re-evaluates it with the old design on every bounds     *)
(* update, so that a failing SentIsSum record names it should it come back.    *)
DevUnchangedOf(x, Rm, Om) ==
    /\ x.kind = "none" /\ ~x.must
    /\ \/ (x.r = None /\ x.o # None /\ Rm # None)     \* regular target unchanged, dropped
       \/ (x.o = None /\ x.r # None /\ Om # None)     \* operating-point target unchanged, dropped
Dev_UnchangedGroupDroppedOnBoundsUpdate == ~Fixed /\ DevUnchangedOf(last, R.m, O.m)

Inv_SentIsSum == SentIsSum \/ Dev_UnchangedGroupDroppedOnBoundsUpdate
Inv_SentInBounds == SentInBounds

\* the reports carry the memos (what get_status reads)
ReportsAreMemos == rep.r = R.m /\ rep.o = O.m
\* with must_send both groups are recalculated: nothing is ever "unchanged"
MustSendNeverDrops == last.must => ((last.r # None \/ ~R.c) /\ (last.o # None \/ ~O.c))
\* the deviation is not vacuous bookkeeping: whenever it fires a request was sent
DevImpliesSent == Dev_UnchangedGroupDroppedOnBoundsUpdate => last.sent # None

=============================================================================
