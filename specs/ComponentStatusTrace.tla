------------------------ MODULE ComponentStatusTrace ------------------------
(* Validates executions recorded from the REAL EVChargerStatusTracker /        *)
(* PVInverterStatusTracker driven on the virtual clock, against                *)
(* ComponentStatus.tla.                                                        *)
(*                                                                             *)
(* One trace per ndjson line: [id, lines]; every line is one harness step:     *)
(*   ev    "start" (tracker started, loop run to idle: the initial status)     *)
(*         "tick"  (clock +1 s; run = the loop was run to idle afterwards, so  *)
(*                  due timers fired; run = FALSE: clock moved, nothing ran)   *)
(*         "msg"   (data message of `kind` injected after k loop iterations,   *)
(*                  k = -1: the loop was idle; then run to idle)               *)
(*         "res"   (one SetPowerResult, f in ok | fail | none; run to idle)    *)
(*   idle  the loop was idle after the step (a quiescent point)                *)
(*   sent  the statuses the real tracker put on its status channel during the  *)
(*         step, in order ("NW" | "UN" | "WK")                                 *)
(*   proj  projection of the documented private state [until, dur]             *)
(*         (-1 = unavailable; until -99 = None)                                *)
(*                                                                             *)
(* (a) ObsChecks: every tracker clause of X03 evaluated on the statuses the    *)
(*     code sent, against ground truth folded from the injected events only;   *)
(*     a failing record carries the names of the deviations whose cause        *)
(*     occurred in that very history.                                          *)
(* (b) existential validation: some interleaving of the spec's timer actions   *)
(*     (and, per handler, some subset of the repairs) explains each step.      *)
EXTENDS ComponentStatus, SequencesExt, TLCExt

VARIABLES tid, l, ph, mark
tvars == <<vars, tid, l, ph, mark>>

TraceLog == TLCEval(ndJsonDeserialize(IOEnv.TRACE_FILE))
Tr == TraceLog[tid]
NL == Len(Tr.lines)
Line == Tr.lines[l]

Say(v) == CSVWrite("%1$s", <<ToJson(v)>>, IOEnv.VERDICT_FILE)
Report(ok, clause, i, devs, detail) ==
    IF ok THEN TRUE ELSE Say([tid |-> Tr.id, l |-> i, clause |-> clause, deviations |-> devs, detail |-> detail])

----------------------------------------------------------------------------
(* (a) ground truth folded from the injected events; statuses from the code *)
NoM == [q |-> FALSE, c |-> FALSE, lag |-> 0, arr |-> None]
G0 == [t |-> 0, m |-> NoM, real |-> "none",
       k |-> [act |-> FALSE, n |-> 0, t0 |-> 0],        \* the block the statement prescribes
       kc |-> [until |-> None, dur |-> MinBlock],       \* the block as the unrepaired code keeps it (cause predicates only)
       sS |-> FALSE, sU |-> FALSE, sO |-> FALSE,        \* a deviating branch changed the blocking state (sticky)
       lifted |-> FALSE,                                \* status raised from NOT_WORKING by a result, no data handled since
       hq |-> FALSE]

GMsg(kind, t) == [q |-> Qualifies(kind), c |-> ContentOk(kind), lag |-> Lag(kind), arr |-> t]
P(s, t) == s.arr # None /\ s.q /\ t - s.arr < MaxAge
\* cause predicate of Dev_EdgeAgeAccepted from the injected events only
D(s, t) == s.arr # None /\ s.c /\ s.lag = MaxAge /\ t - s.arr < MaxAge
LastOr(sq, d) == IF Len(sq) = 0 THEN d ELSE sq[Len(sq)]
Shown(r) == IF r = "none" THEN "NW" ELSE r               \* before the first notification nothing is usable

StepG(g, x) ==
    LET t1 == g.t + (IF x.ev = "tick" THEN 1 ELSE 0)
        m1 == IF x.ev = "msg" THEN GMsg(x.kind, t1) ELSE g.m
        real1 == LastOr(x.sent, g.real)
        f == IF x.ev = "res" THEN x.f ELSE "skip"
        k1 == IF f = "skip" THEN g.k ELSE IdealAfter(g.k, f, Shown(g.real), t1)
        kcb == BlockAt(g.kc, t1)
        kc1 == IF f \in {"fail", "none"} THEN kcb ELSE g.kc
        lifted1 == IF f # "skip" /\ Shown(g.real) = "NW" /\ Shown(real1) # "NW" THEN TRUE
                   ELSE IF x.ev = "msg" \/ Shown(real1) = "NW" THEN FALSE
                   ELSE g.lifted
    IN [t |-> t1, m |-> m1, real |-> real1, k |-> k1, kc |-> kc1,
        sS |-> g.sS \/ (f = "ok" /\ g.kc.until # None),
        sU |-> g.sU \/ (f = "none" /\ kcb # g.kc),
        sO |-> g.sO \/ (f \in {"fail", "none"} /\ Shown(g.real) = "NW" /\ kcb # g.kc),
        lifted |-> lifted1,
        hq |-> IF x.idle THEN P(m1, t1) ELSE g.hq]

GroundFold(n) ==
    FoldLeft(LAMBDA acc, x : Append(acc, StepG(IF Len(acc) = 0 THEN G0 ELSE acc[Len(acc)], x)),
             <<>>, SubSeq(Tr.lines, 1, n))

IfDev(c, name) == IF c THEN <<name>> ELSE <<>>

LineChecks(i, g0, g1, x) ==
    LET t == g1.t
        r == Shown(g1.real)
        strict == P(g1.m, t)
        kk == g1.k
        dFresh == IfDev(D(g1.m, t), "Dev_EdgeAgeAccepted") \o IfDev(g1.lifted, "Dev_ResultOverridesData")
        dBlock == IfDev(g1.sS, "Dev_SuccessDoesNotUnblock") \o IfDev(g1.sU, "Dev_UnmentionedBlocked")
                  \o IfDev(g1.sO \/ g1.lifted, "Dev_ResultOverridesData")
        chain == (IF g0.real = "none" THEN <<>> ELSE <<g0.real>>) \o x.sent
        what == <<"t", t, "status", r, "message", g1.m, "event", x.ev, x.kind, x.f>>
        blockinfo == <<"t", t, "status", r, "prescribed block", kk, "until", IUntil(kk), "event", x.ev, x.kind, x.f>>
    IN
    /\ x.idle =>
         /\ Report(r \in {"WK", "UN"} => strict, "X03.WorkingImpliesHealthyAndFresh", i, dFresh, what)
         /\ Report((g0.hq /\ ~strict) => r = "NW", "X03.NotWorkingWhenDisqualified", i, dFresh, what)
         \* a qualifying message handled alone (no timer due at that instant) leaves the component usable
         /\ Report((x.ev = "msg" /\ x.k = -1 /\ Qualifies(x.kind)) => r # "NW", "X03.WorkingWhenHealthy", i, <<>>, what)
         /\ Report((r # "NW" /\ IBlocked(kk, t)) => r = "UN", "X03.BackoffDoubles", i, dBlock,
                   <<"blocked but not UNCERTAIN">> \o blockinfo)
         /\ Report(r = "UN" => kk.act, "X03.BackoffDoubles", i, dBlock,
                   <<"UNCERTAIN without a failed command since the last success">> \o blockinfo)
         /\ Report((x.ev \in {"msg", "res"} /\ r # "NW") => (r = "UN" <=> IBlocked(kk, t)), "X03.BackoffDoubles", i, dBlock,
                   <<"status after an event vs the prescribed block">> \o blockinfo)
         \* while a block is in force the tracker's blocked_until (when the projection exists) is its end
         /\ Report((x.proj.until # -1 /\ IBlocked(kk, t)) => x.proj.until = IUntil(kk), "X03.BackoffDoubles", i, dBlock,
                   <<"blocked_until while blocked", "got", x.proj.until>> \o blockinfo)
         \* extension (never a violation): lagged-but-not-stale data, age by TIMESTAMP
         /\ Report(r \in {"WK", "UN"} =>
                      ((g1.m.arr # None /\ g1.m.lag > 0 /\ g1.m.lag < MaxAge) => t - (g1.m.arr - g1.m.lag) < MaxAge),
                   "EXT.FreshByTimestamp", i, <<>>, what)
    /\ Report(\A j \in 1..(Len(chain) - 1) : chain[j] # chain[j + 1], "X03.NotifyOnlyOnChange", i, <<>>,
              <<"previous", g0.real, "sent", x.sent>>)

ObsChecks ==
    LET GS == GroundFold(NL) IN
    \A i \in 1..NL : LineChecks(i, IF i = 1 THEN G0 ELSE GS[i - 1], GS[i], Tr.lines[i])

\* how often each clause's antecedent was exercised in this trace (vacuity guard, counted by TLC)
Stats ==
    LET GS == GroundFold(NL)
        Q == {i \in 1..NL : Tr.lines[i].idle}
        Pre(i) == IF i = 1 THEN G0 ELSE GS[i - 1]
        N(S) == Cardinality(S)
        R(i) == Shown(GS[i].real)
    IN [reportedUsable |-> N({i \in Q : R(i) \in {"WK", "UN"}}),
        disqualifiedEdges |-> N({i \in Q : Pre(i).hq /\ ~P(GS[i].m, GS[i].t)}),
        silenceEdges |-> N({i \in Q : Pre(i).hq /\ Tr.lines[i].ev = "tick" /\ ~P(GS[i].m, GS[i].t)}),
        healthyAlone |-> N({i \in Q : Tr.lines[i].ev = "msg" /\ Tr.lines[i].k = -1 /\ Qualifies(Tr.lines[i].kind)}),
        notifications |-> N({<<i, j>> \in (1..NL) \X (1..4) : j <= Len(Tr.lines[i].sent)}),
        blockedPoints |-> N({i \in Q : R(i) # "NW" /\ IBlocked(GS[i].k, GS[i].t)}),
        unblockedAfterBlock |-> N({i \in Q : Tr.lines[i].ev \in {"msg", "res"} /\ R(i) = "WK"
                                            /\ GS[i].k.act /\ ~IBlocked(GS[i].k, GS[i].t)}),
        maxConsecutive |-> LET S == {GS[i].k.n : i \in 1..NL} \cup {0} IN CHOOSE m \in S : \A z \in S : z <= m,
        resets |-> N({i \in 1..NL : Pre(i).k.act /\ ~GS[i].k.act}),
        spuriousNotWorking |-> N({i \in Q : R(i) = "NW" /\ P(GS[i].m, GS[i].t)}),
        devEdge |-> N({i \in Q : D(GS[i].m, GS[i].t)}),
        devLifted |-> N({i \in Q : GS[i].lifted}),
        devStuck |-> N({i \in 1..NL : GS[i].sS /\ ~Pre(i).sS}),
        devUnmentioned |-> N({i \in 1..NL : GS[i].sU /\ ~Pre(i).sU}),
        devBlockedNotWorking |-> N({i \in 1..NL : GS[i].sO /\ ~Pre(i).sO})]

----------------------------------------------------------------------------
(* (b) existential validation against the specification *)
TInit ==
    /\ tid \in 1..Len(TraceLog)
    /\ l = 1 /\ ph = 0
    /\ Init
    /\ mark = 0
    /\ ObsChecks

Progress == Say([tid |-> Tr.id, at |-> l'])
KeepH == h' = h

\* the harness step itself
Event ==
    /\ l <= NL /\ ph = 0
    /\ \/ Line.ev = "start" /\ UNCHANGED <<now, msg, tmr, late, blk, st, ib, lift, dev, last, fresh, nev, sent>>
       \/ Line.ev = "tick" /\ Tick
       \/ Line.ev = "msg" /\ \E lt \in BOOLEAN, fx \in FxData : Data(Line.kind, lt, fx)
       \/ Line.ev = "res" /\ \E fx \in FxRes : Res(Line.f, fx)
    /\ KeepH
    /\ ph' = 1 /\ UNCHANGED <<tid, l, mark>>

\* timer ticks handled by the tracker while the loop ran (silent: bounded by the due timers)
Ran == Line.ev # "tick" \/ Line.run
Silent ==
    /\ l <= NL /\ Ran /\ Line.ev # "start"
    /\ (ph = 0 => (Line.ev = "msg" /\ Line.k >= 0))
    /\ (Timer \/ Late)
    /\ KeepH
    /\ UNCHANGED <<tid, l, ph, mark>>

Matches(x) ==
    /\ SubSeq(sent, mark + 1, Len(sent)) = x.sent
    /\ x.proj.until # -1 => (x.proj.until = blk.until /\ x.proj.dur = blk.dur)

LineEnd ==
    /\ l <= NL /\ ph = 1
    /\ Matches(Line)
    /\ Line.idle => Quiescent
    /\ l' = l + 1 /\ ph' = 0 /\ mark' = Len(sent)
    /\ UNCHANGED <<vars, tid>>
    /\ Progress
    /\ (l' > NL) => Say([tid |-> Tr.id, done |-> TRUE, stats |-> Stats])

TNext == Event \/ Silent \/ LineEnd
=============================================================================
