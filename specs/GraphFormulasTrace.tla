------------------------- MODULE GraphFormulasTrace -------------------------
(* Conformance of the real formula generators with GraphFormulas.tla and the  *)
(* C12 clauses evaluated by TLC on what the REAL generators produced.         *)
(*                                                                            *)
(* Input (ndjson, IOEnv.TRACE_FILE), one object per line:                     *)
(*   kind "graph": n, cat, parent, wire (node -> battery slots) = a graph TLC enumerated; accepted = the    *)
(*        real _MicrogridComponentGraph constructor (which validates) took it;*)
(*        calls = one record per real generator call, in the order of         *)
(*        NamesSeq:  name, ok (FALSE: generate() raised, err = exception type),*)
(*        coef[i] = signed multiplicity of component id i in the formula the  *)
(*        real engine holds (its post-fix steps, folded), fb[i] = <<>> or the *)
(*        multiset of the formula produced by the real fallback generator     *)
(*        attached to the term #i, shape = "ok" or what made the formula not  *)
(*        a signed sum of component ids 1..n, s = str(engine)                 *)
(*   kind "cand": a candidate outside the premise; accepted as above          *)
(* The spec actions are re-executed on the recorded graph (ChooseTopology /   *)
(* RejectTopology, then one Gen step per recorded call); every clause is      *)
(* evaluated on the recorded REAL multisets with the physics of the same      *)
(* graph.  A false clause is written to IOEnv.VERDICT_FILE and the trace      *)
(* goes on.  Clauses named "drift.*" are not property clauses: they report    *)
(* that the code and the transcription differ; "EXT.*" lines are observations.*)
EXTENDS GraphFormulas

VARIABLES tid, l
tvars == <<vars, tid, l>>

TraceLog == ndJsonDeserialize(IOEnv.TRACE_FILE)
Tr == TraceLog[tid]

Say(v) == CSVWrite("%1$s", <<ToJson(v)>>, IOEnv.VERDICT_FILE)
Fail(clause, detail, devs) ==
    Say([tid |-> Tr.id, l |-> l, clause |-> clause, detail |-> detail, deviations |-> devs])
\* Check(..) is always TRUE; it reports when the clause is false
Check(ok, clause, detail, devs) == IF ok THEN TRUE ELSE Fail(clause, detail, devs)
NoDev == <<>>

RealF(c) == [ok |-> c.ok, coef |-> c.coef, fb |-> c.fb]
CallOf(name) == Tr.calls[CHOOSE j \in 1..Len(Tr.calls) : Tr.calls[j].name = name]
Real(name) == RealF(CallOf(name))

TotalClause(name) ==
    CASE name = "grid" -> "C12.GridTotal"
      [] name = "cons" -> "C12.ConsumerTotal"
      [] name = "prod" -> "C12.ProducerTotal"
      [] name = "bat" -> "C12.BatteryTotal"
      [] name = "pv" -> "C12.PVTotal"
      [] name = "pvd" -> "C12.PVDfsTotal"
      [] name = "ev" -> "C12.EVTotal"
      [] name = "chp" -> "C12.CHPTotal"

\* the named deviation (the defect repaired by 47787ae) is attached to a failing record only when
\* its cause holds on this very graph AND the real consumer formula is exactly the legacy one
KnownDev(Fcons) ==
    IF Dev_MixedMeterAsConsumerWithoutGridMeter(Fcons)
    THEN <<"Dev_MixedMeterAsConsumerWithoutGridMeter">> ELSE NoDev
\* KF-C12-3: the cause holds on this graph and the real CHP formula is exactly the transcribed one
\* KF-C12-4: the cause holds on this graph and the real battery formula (with its fallbacks) is
\* exactly the transcribed one
KnownBatDev(Fbat) ==
    IF Dev_SharedBatteryFallback(Fbat) THEN <<"Dev_SharedBatteryFallback">> ELSE NoDev
KnownChpDev(Fchp) ==
    IF Dev_GridMeterAsChpMeter(Fchp) THEN <<"Dev_GridMeterAsChpMeter">> ELSE NoDev

\* clauses on one real call c, S = what the transcription generated for the same formula
CallChecks(c, S) ==
    LET F == RealF(c)
        shown == [name |-> c.name, formula |-> c.s, coef |-> c.coef, cat |-> cat, parent |-> parent, wire |-> Tr.wire]
    IN
    /\ Check(c.shape = "ok", "C12.FormulaShape", <<c.shape, shown>>,
             IF c.name = "bat" THEN KnownBatDev(F) ELSE NoDev)
    /\ Check(GeneratedOK(c.name, F) /\ (F.ok \/ c.err = "FormulaGenerationError"),
             "C12.Generated", <<c.err, shown>>, NoDev)
    /\ Check(TotalOK(c.name, F), TotalClause(c.name),
             <<"form", Form(F.coef), "true total", TrueTotal(c.name), shown>>,
             IF c.name = "cons" THEN KnownDev(F) ELSE IF c.name = "chp" THEN KnownChpDev(F) ELSE NoDev)
    /\ Check(FallbackOK(F), "C12.FallbackEqualsPrimary", <<"fallbacks", c.fb, shown>>,
             IF c.name = "bat" THEN KnownBatDev(F) ELSE NoDev)
    \* observation (no clause): a fallback stands in for a term that carries unmetered load
    /\ Check(~FallbackOmitsLoad(F), "EXT.FallbackOmitsUnmeteredLoad", <<"fallbacks", c.fb, shown>>, NoDev)
    /\ Check(F = S, "drift.Transcription", <<"transcription", S.ok, S.coef, S.fb, "real", c.ok, c.fb, shown>>, NoDev)

FinalChecks ==
    LET Fc == Real("cons") IN
    Check(BalanceOK(Real("grid"), Fc, Real("prod"), Real("bat"), Real("ev")), "C12.Balance",
          <<"grid", Form(Real("grid").coef), "consumer", Form(Fc.coef), "producer", Form(Real("prod").coef),
            "battery", Form(Real("bat").coef), "ev", Form(Real("ev").coef),
            [cat |-> cat, parent |-> parent]>>,
          KnownDev(Fc))

\* which clause antecedents this record exercised (counted by the harness: vacuity guards).
\* The first group is determined by the graph alone, the second by what the real code returned.
Exercised ==
    IF Tr.kind = "graph" /\ Len(Tr.calls) = Len(NamesSeq)
    THEN [graph |-> TRUE,
          with_grid_meter |-> AreGridMeters,
          dev |-> CauseMixedMeter,
          real_legacy_consumer |-> CauseMixedMeter /\ Real("cons") = LegacyConsumer,
          chp_without_dedicated_meter |-> ChpRefusal,
          chp_with_dedicated_meter |-> ~ChpRefusal /\ ChpSet # {},
          load |-> \E m \in Nodes : HasLoad(m),
          shared_battery |-> SharedBattery,
          multi_battery_inverter |-> MultiBattery,
          shared_battery_fallback |-> CauseSharedBatteryFallback,
          nested |-> \E m \in Nodes : cat[m] = "METER" /\ parent[m] # 0 /\ cat[parent[m]] = "METER",
          dedicated_meter |-> \E m \in Nodes : Dedicated(m),
          grid_meter_over_one_device_type |-> \E m \in Nodes : IsTheGridMeter(m) /\ MeterFallback(m) # {},
          grid_meter_as_chp_meter |-> CauseGridMeterAsChpMeter,
          no_grid_meter_and_two_mixed_meters_with_device_chains |-> TwoMixed,
          real_fallbacks |-> Cardinality({<<j, p>> \in (1..Len(Tr.calls)) \X Nodes : Tr.calls[j].fb[p] # <<>>}),
          real_refusals |-> Cardinality({j \in 1..Len(Tr.calls) : ~Tr.calls[j].ok}),
          real_zero_formulas |-> Cardinality({j \in 1..Len(Tr.calls) : Tr.calls[j].ok /\ Tr.calls[j].coef = ZeroVec})]
    ELSE [graph |-> FALSE]
Done == Say([tid |-> Tr.id, done |-> TRUE, ex |-> Exercised'])

TInit ==
    /\ tid \in 1..Len(TraceLog)
    /\ l = 0
    /\ n = Tr.n /\ cat = Tr.cat /\ parent = <<>> /\ wire = <<>> /\ pc = "topology" /\ gen = NoGen

TChoose ==
    /\ l = 0 /\ Tr.kind = "graph"
    /\ parent' = Tr.parent
    /\ LET w == [i \in 1..Tr.n |-> ToSet(Tr.wire[i])] IN WiringOK(w) /\ ChooseTopologyW(w)
    /\ Check(Tr.accepted, "drift.ValidationAgrees", <<"real constructor rejected", Tr.cat, Tr.parent>>, NoDev)
    /\ l' = 1 /\ UNCHANGED tid
    /\ (Len(Tr.calls) = 0 => Done)

TCand ==
    /\ l = 0 /\ Tr.kind = "cand"
    /\ parent' = Tr.parent
    /\ RejectTopology
    /\ Check(Tr.accepted = ValidationOK', "drift.ValidationAgrees",
             <<"real accepted", Tr.accepted, "transcribed rules", ValidationOK', Tr.cat, Tr.parent>>, NoDev)
    /\ l' = 1 /\ UNCHANGED tid
    /\ Done

TGen ==
    /\ Tr.kind = "graph" /\ l \in 1..Len(Tr.calls)
    /\ LET c == Tr.calls[l] IN
       /\ GenStep(c.name)
       /\ CallChecks(c, gen'[c.name])
    /\ l' = l + 1 /\ UNCHANGED tid
    /\ (l' > Len(Tr.calls)) => ((pc' = "done" => FinalChecks) /\ Done)

TNext == TChoose \/ TCand \/ TGen
=============================================================================
