---------------------------- MODULE FormulaCompile ----------------------------
(* Formula compilation and evaluation in the formula engine, with PROGRAMS AS   *)
(* DATA: an expression tree is chosen, rendered to the token stream one of the  *)
(* four front ends produces, pushed token by token through a transcription of   *)
(* FormulaBuilder (push_oper / push_metric / push_constant / finalize, with the *)
(* code's precedence table), and the resulting post-fix program is run once per *)
(* timestamp on a float stack with Python's semantics (NaN, min/max comparison  *)
(* order, ZeroDivisionError).                                                    *)
(*                                                                              *)
(* Next to the transcription stands the REFERENCE: ordinary operator            *)
(* precedence, parentheses, left associativity, exact rational arithmetic       *)
(* (OrdinaryParse, Ev, Intended).                                               *)
(*                                                                              *)
(* C05  CompileCorrect, RenderFaithful, SharedFetcher, StepwiseEqualsFold       *)
(* C13  NoneIff, ZeroWhenConfigured, SampleAlways (hard invariants)              *)
(*      The step semantics are those of the REPAIRED code (min/max propagate a  *)
(*      NaN operand, a zero divisor yields NaN).  The two former defects stay   *)
(*      as named cause predicates over the LEGACY step semantics, so that a     *)
(*      record on which an old behaviour returns is labelled with its cause:    *)
(*        Dev_MinMaxDropsNaNOperand       max(x, nan) = x  (NaN second operand dropped) *)
(*        Dev_DivisionByZeroDropsSample   x / 0 raises, _run drops the round    *)
(*                                                                              *)
(* Anchors: formula_engine/_formula_engine.py (_operator_precedence,            *)
(* FormulaBuilder, _BaseHOFormulaBuilder._push, HigherOrderFormulaBuilder.build,*)
(* FormulaEngine._run), _formula_steps.py (step classes, MetricFetcher.apply),  *)
(* _formula_evaluator.py (apply), _resampled_formula_builder.py (from_string).  *)
EXTENDS Integers, Sequences, FiniteSets, TLC, Json, CSV, IOUtils

CONSTANTS NM,      \* metric streams m1..mNM
          KVals,   \* integer constants usable as leaves (front ends "push" and "ho")
          Clips,   \* sequence of <<lo, hi>> bounds offered to push_clipper (front end "push");
                   \* None (-99) = bound absent, lo <= hi when both are present
          Depth,   \* maximal depth of the trees explored exhaustively
          Fronts,  \* front ends explored: subset of {"smin", "sfull", "push", "ho"}
          BinSet,  \* binary operators offered to the front end "ho" (subset of HOBinOps)
          UnSet,   \* unary operators offered to the front end "ho"
          EnvSeq,  \* the environments pushed as consecutive timestamps; env = <<code_1..code_NM>>
          ZMode,   \* "none": nones_are_zeros FALSE everywhere; "all": every configuration
          SimDepth,\* depth of the pseudo-random trees in Mode "sim"
          Seeds,   \* Mode "sim": one program is decoded from each seed (integers 1..65536)
          Mode     \* "exh": exhaustive + one case emitted per built program
                   \* "sim": like "exh" for pseudo-random deeper trees  "trace": see FormulaCompileTrace

VARIABLES pc,     \* "idle" -> "build" -> "run"
          prog,   \* the expression tree (the program, as data)
          front,  \* which front end renders it
          zc,     \* nones_are_zeros configuration [leaf : 1..NM -> BOOLEAN, glob : BOOLEAN]
          toks,   \* the token stream the front end feeds into FormulaBuilder
          ip,     \* next token
          b,      \* FormulaBuilder: [steps, bstack, fetchers]
          tick,   \* rounds (timestamps) evaluated so far
          cur,    \* environment of the last round
          last,   \* what the last round produced
          want,   \* what the reference demands for the last round (NaN = None)
          hist    \* per round <<want, outcome>> (only to emit the finished case)

vars == <<pc, prog, front, zc, toks, ip, b, tick, cur, last, want, hist>>

Metrics == 1..NM
EmitOn == "OUT_FILE" \in DOMAIN IOEnv
Emit(v) == IF EmitOn THEN CSVWrite("%1$s", <<ToJson(v)>>, IOEnv.OUT_FILE) ELSE TRUE

-----------------------------------------------------------------------------
(* Exact rationals <<n, d>>, d > 0, gcd(n, d) = 1.  NaN == <<0, 0>> is the one  *)
(* non-number of the float stack; the reference uses the same value as          *)
(* "undefined / None".                                                          *)
Abs(x) == IF x < 0 THEN -x ELSE x
RECURSIVE GCD(_, _)
GCD(a, c) == IF c = 0 THEN a ELSE GCD(c, a % c)
Norm(n, d) == LET g == GCD(Abs(n), Abs(d))
                  s == IF d < 0 THEN -1 ELSE 1
              IN <<s * (n \div g), s * (d \div g)>>
R(n) == <<n, 1>>
NaN == <<0, 0>>
IsNaN(x) == x[2] = 0
RAdd(x, y) == Norm(x[1] * y[2] + y[1] * x[2], x[2] * y[2])
RSub(x, y) == Norm(x[1] * y[2] - y[1] * x[2], x[2] * y[2])
RMul(x, y) == Norm(x[1] * y[1], x[2] * y[2])
RQuo(x, y) == Norm(x[1] * y[2], x[2] * y[1])          \* y # 0
RNeg(x) == <<-x[1], x[2]>>
RLt(x, y) == x[1] * y[2] < y[1] * x[2]
RIsZero(x) == x[2] # 0 /\ x[1] = 0

-----------------------------------------------------------------------------
(* Input value codes (what a stream carries at one timestamp)                  *)
None == -99
NaNIn == -98
PInf == -97
NInf == -96
Missing(v) == v <= -96          \* _is_value_valid / MetricFetcher.apply: None, NaN, +-inf
HasMissing(env, ms) == \E i \in ms : Missing(env[i])
Finite(env, ms) == ~HasMissing(env, ms)

-----------------------------------------------------------------------------
(* Programs                                                                    *)
M(i) == [k |-> "m", i |-> i]
C(v) == [k |-> "c", v |-> v]
B(op, l, r) == [k |-> "b", op |-> op, l |-> l, r |-> r]
U(op, a) == [k |-> "u", op |-> op, a |-> a]
CL(j, a) == [k |-> "cl", j |-> j, a |-> a]          \* push_clipper(Clips[j]) applied to a
NoTree == [k |-> "none"]

ArithOps == {"+", "-", "*", "/"}
HOBinOps == ArithOps \cup {"max", "min"}
HOUnOps == {"consumption", "production"}
StrFronts == {"smin", "sfull"}

MLeaves == {M(i) : i \in Metrics}
CLeaves == {C(v) : v \in KVals}

RECURSIVE PlainTrees(_, _, _)    \* + - * / over the given leaves (string formulas, push API);
PlainTrees(d, L, nc) ==          \* push API also: one of the first nc clippers on any sub-expression
    IF d = 0 THEN L
    ELSE LET S == PlainTrees(d - 1, L, nc) IN
         S \cup {B(op, l, r) : op \in ArithOps, l \in S, r \in S}
           \cup {CL(j, a) : j \in 1..nc, a \in S}

\* Composition API: a constant can only be the RIGHT operand of a binary operator (there is no
\* __radd__), never the operand of consumption/production and never the whole formula.
RECURSIVE HOTrees(_)
HOTrees(d) ==
    IF d = 0 THEN MLeaves \cup CLeaves
    ELSE LET S == HOTrees(d - 1)
             NC == {t \in S : t.k # "c"} IN
         S \cup {B(op, l, r) : op \in BinSet, l \in NC, r \in S}
           \cup {U(op, a) : op \in UnSet, a \in NC}

RECURSIVE MetricsOf(_)
MetricsOf(e) == CASE e.k = "m" -> {e.i}
                  [] e.k = "c" -> {}
                  [] e.k = "b" -> MetricsOf(e.l) \cup MetricsOf(e.r)
                  [] e.k \in {"u", "cl"} -> MetricsOf(e.a)

TreesOf(f) ==
    CASE f \in StrFronts -> PlainTrees(Depth, MLeaves, 0)
      \* (a formula without any metric has no fetcher: FormulaEvaluator.apply raises at once and
      \*  FormulaEngine._run retries without ever yielding; not reachable from a formula string
      \*  or the composition API, so outside C05 / C13)
      [] f = "push" -> {t \in PlainTrees(Depth, MLeaves \cup CLeaves, Len(Clips)) : MetricsOf(t) # {}}
      [] f = "ho" -> {t \in HOTrees(Depth) : t.k \in {"b", "u"}}

RECURSIVE DepthOf(_)
DepthOf(e) == CASE e.k \in {"m", "c"} -> 0
                [] e.k = "b" -> 1 + (IF DepthOf(e.l) > DepthOf(e.r) THEN DepthOf(e.l) ELSE DepthOf(e.r))
                [] e.k \in {"u", "cl"} -> 1 + DepthOf(e.a)

-----------------------------------------------------------------------------
(* Tokens and post-fix steps share one record shape:                           *)
(*   [t |-> "op", s |-> "+", n |-> 0]   [t |-> "m", s |-> "m", n |-> i]         *)
(*   [t |-> "c", s |-> "c", n |-> v]                                            *)
OpTok(o) == [t |-> "op", s |-> o, n |-> 0]
MTok(i) == [t |-> "m", s |-> "m", n |-> i]
CTok(v) == [t |-> "c", s |-> "c", n |-> v]
ClipTok(j) == [t |-> "clip", s |-> "clip", n |-> j]      \* push_clipper(Clips[j][1], Clips[j][2])
LP == OpTok("(")
RP == OpTok(")")
Paren(yes, s) == IF yes THEN <<LP>> \o s \o <<RP>> ELSE s

\* ordinary precedence (the reference): + - lowest, * / above, max min above (only ever used
\* with explicit parentheses), postfix consumption/production bind to the primary before them
OPrec(o) == CASE o \in {"+", "-"} -> 1 [] o \in {"*", "/"} -> 2 [] o \in {"max", "min"} -> 3

\* a formula string with as few parentheses as ordinary reading needs
RECURSIVE RenderMin(_)
RenderMin(e) ==
    CASE e.k = "m" -> <<MTok(e.i)>>
      [] e.k = "c" -> <<CTok(e.v)>>
      \* push_clipper clips the last value of the stack: a leaf as it stands, anything else in
      \* parentheses (the documented way to clip an entire expression)
      [] e.k = "cl" -> Paren(e.a.k = "b", RenderMin(e.a)) \o <<ClipTok(e.j)>>
      [] e.k = "b" ->
           LET lp == e.l.k = "b" /\ OPrec(e.l.op) < OPrec(e.op)
               rp == e.r.k = "b" /\ OPrec(e.r.op) <= OPrec(e.op)
           IN Paren(lp, RenderMin(e.l)) \o <<OpTok(e.op)>> \o Paren(rp, RenderMin(e.r))

\* every compound sub-expression parenthesised
RECURSIVE RenderFull(_)
RenderFull(e) ==
    CASE e.k = "m" -> <<MTok(e.i)>>
      [] e.k = "c" -> <<CTok(e.v)>>
      [] e.k = "b" -> <<LP>> \o RenderFull(e.l) \o <<OpTok(e.op)>> \o RenderFull(e.r) \o <<RP>>

\* _BaseHOFormulaBuilder: a builder starts as [engine]; _push(oper, other) wraps what it has in
\* parentheses, appends the operator and then the engine / constant, or the other builder's
\* tokens inside parentheses; consumption()/production() wrap and append the operator.
RECURSIVE RenderHO(_)
RenderHO(e) ==
    CASE e.k = "m" -> <<MTok(e.i)>>
      [] e.k = "u" -> <<LP>> \o RenderHO(e.a) \o <<RP, OpTok(e.op)>>
      [] e.k = "b" ->
           <<LP>> \o RenderHO(e.l) \o <<RP, OpTok(e.op)>> \o
           (CASE e.r.k = "m" -> <<MTok(e.r.i)>>
              [] e.r.k = "c" -> <<CTok(e.r.v)>>
              [] OTHER -> <<LP>> \o RenderHO(e.r) \o <<RP>>)

Render(f, e) == CASE f = "smin" -> RenderMin(e)
                  [] f = "sfull" -> RenderFull(e)
                  [] f = "push" -> RenderMin(e)
                  [] f = "ho" -> RenderHO(e)

-----------------------------------------------------------------------------
(* The reference reading of a token stream: precedence climbing with the       *)
(* ORDINARY table, left associativity, parentheses.  RenderFaithful checks     *)
(* that a rendered program reads back as the tree it was rendered from, so     *)
(* "the arithmetic value of the expression" is Ev of that tree.                *)
IsBinTok(tk, p) == p <= Len(tk) /\ tk[p].t = "op" /\ tk[p].s \in HOBinOps
IsUnTok(tk, p) == p <= Len(tk) /\ tk[p].t = "op" /\ tk[p].s \in HOUnOps
IsClipTok(tk, p) == p <= Len(tk) /\ tk[p].t = "clip"

RECURSIVE PExpr(_, _, _), PLoop(_, _, _, _), PPost(_, _, _), PPrimary(_, _)
PPrimary(tk, p) ==
    IF tk[p].t = "m" THEN [t |-> M(tk[p].n), p |-> p + 1]
    ELSE IF tk[p].t = "c" THEN [t |-> C(tk[p].n), p |-> p + 1]
    ELSE LET r == PExpr(tk, p + 1, 1) IN [t |-> r.t, p |-> r.p + 1]     \* "(" expr ")"
PPost(tk, t, p) == IF IsUnTok(tk, p) THEN PPost(tk, U(tk[p].s, t), p + 1)
                   ELSE IF IsClipTok(tk, p) THEN PPost(tk, CL(tk[p].n, t), p + 1)
                   ELSE [t |-> t, p |-> p]
PLoop(tk, lhs, p, minp) ==
    IF IsBinTok(tk, p) /\ OPrec(tk[p].s) >= minp
    THEN LET r == PExpr(tk, p + 1, OPrec(tk[p].s) + 1) IN PLoop(tk, B(tk[p].s, lhs, r.t), r.p, minp)
    ELSE [t |-> lhs, p |-> p]
PExpr(tk, p, minp) ==
    LET a == PPrimary(tk, p)
        u == PPost(tk, a.t, a.p)
    IN PLoop(tk, u.t, u.p, minp)
OrdinaryParse(tk) == PExpr(tk, 1, 1).t

\* exact value of a tree under a valuation of the metrics; NaN when some division is by zero
RECURSIVE Ev(_, _)
Ev(e, val) ==
    CASE e.k = "m" -> val[e.i]
      [] e.k = "c" -> R(e.v)
      [] e.k = "cl" ->            \* a missing value stays missing, otherwise clamp into [lo, hi]
           LET x == Ev(e.a, val)
               lo == Clips[e.j][1]
               hi == Clips[e.j][2]
               y == IF lo # None /\ RLt(x, R(lo)) THEN R(lo) ELSE x IN
           IF IsNaN(x) THEN NaN ELSE IF hi # None /\ RLt(R(hi), y) THEN R(hi) ELSE y
      [] e.k = "u" ->
           LET x == Ev(e.a, val)
               y == IF e.op = "consumption" THEN x ELSE RNeg(x) IN
           IF IsNaN(x) THEN NaN ELSE IF RLt(y, R(0)) THEN R(0) ELSE y
      [] e.k = "b" ->
           LET x == Ev(e.l, val)
               y == Ev(e.r, val) IN
           IF IsNaN(x) \/ IsNaN(y) THEN NaN
           ELSE CASE e.op = "+" -> RAdd(x, y)
                  [] e.op = "-" -> RSub(x, y)
                  [] e.op = "*" -> RMul(x, y)
                  [] e.op = "/" -> IF RIsZero(y) THEN NaN ELSE RQuo(x, y)
                  [] e.op = "max" -> IF RLt(x, y) THEN y ELSE x
                  [] e.op = "min" -> IF RLt(y, x) THEN y ELSE x

\* is stream i configured to count missing values as zero?  from_string: one flag for the
\* formula; push API: per push_metric; composition: from_receiver(..., nones_are_zeros) of
\* the leaf engine or build(..., nones_are_zeros) of the composed one
ZEff(f, z, i) == CASE f \in StrFronts -> z.glob
                   [] f = "push" -> z.leaf[i]
                   [] f = "ho" -> z.leaf[i] \/ z.glob

\* What C05 / C13 demand for one timestamp: NaN (= None) iff a needed input is missing on a
\* stream not configured as zero or the value is undefined; otherwise the exact value with
\* configured-missing inputs read as 0.
Intended(e, f, z, env) ==
    IF \E i \in MetricsOf(e) : Missing(env[i]) /\ ~ZEff(f, z, i) THEN NaN
    ELSE Ev(e, [i \in Metrics |-> IF Missing(env[i]) THEN R(0) ELSE R(env[i])])

Zeroed(env) == [i \in Metrics |-> IF Missing(env[i]) THEN 0 ELSE env[i]]

-----------------------------------------------------------------------------
(* FormulaBuilder (transcription)                                              *)
Prec == [o \in {"max", "min", "consumption", "production", "(", "/", "*", "-", "+", ")"} |->
           CASE o = "max" -> 0 [] o = "min" -> 1 [] o = "consumption" -> 2 [] o = "production" -> 3
             [] o = "(" -> 4 [] o = "/" -> 5 [] o = "*" -> 6 [] o = "-" -> 7 [] o = "+" -> 8
             [] o = ")" -> 9]
Pushable == {"+", "-", "*", "/", "(", "max", "min", "consumption", "production"}
ButLast(s) == SubSeq(s, 1, Len(s) - 1)

B0 == [steps |-> <<>>, bstack |-> <<>>, fetchers |-> <<>>]

\* the while loop of push_oper; returns <<steps, build_stack>>
RECURSIVE PopLoop(_, _, _)
PopLoop(st, bs, oper) ==
    IF bs = <<>> THEN <<st, bs>>
    ELSE LET prev == bs[Len(bs)] IN
         IF Prec[oper] < Prec[prev.s] THEN <<st, bs>>
         ELSE IF oper = ")" /\ prev.s = "(" THEN <<st, ButLast(bs)>>
         ELSE IF prev.s = "(" THEN <<st, bs>>
         ELSE PopLoop(Append(st, prev), ButLast(bs), oper)

PushOperOp(bb, oper) ==
    LET r == IF bb.bstack # <<>> /\ oper # "(" THEN PopLoop(bb.steps, bb.bstack, oper)
             ELSE <<bb.steps, bb.bstack>>
    IN [bb EXCEPT !.steps = r[1],
                  !.bstack = IF oper \in Pushable THEN Append(r[2], OpTok(oper)) ELSE r[2]]

InSeq(x, s) == \E j \in 1..Len(s) : s[j] = x
\* _metric_fetchers.setdefault(name, MetricFetcher(...)); _steps.append(fetcher)
PushMetricOp(bb, i) ==
    [bb EXCEPT !.fetchers = IF InSeq(i, bb.fetchers) THEN bb.fetchers ELSE Append(bb.fetchers, i),
               !.steps = Append(bb.steps, MTok(i))]
PushConstantOp(bb, v) == [bb EXCEPT !.steps = Append(bb.steps, CTok(v))]
\* push_clipper: the step goes straight to the program, not onto the build stack
PushClipperOp(bb, j) == [bb EXCEPT !.steps = Append(bb.steps, ClipTok(j))]

RECURSIVE Rev(_)
Rev(s) == IF s = <<>> THEN <<>> ELSE Append(Rev(Tail(s)), Head(s))
FinalizeOp(bb) == [bb EXCEPT !.steps = bb.steps \o Rev(bb.bstack), !.bstack = <<>>]

PushTok(bb, tk) == CASE tk.t = "op" -> PushOperOp(bb, tk.s)
                     [] tk.t = "m" -> PushMetricOp(bb, tk.n)
                     [] tk.t = "c" -> PushConstantOp(bb, tk.n)
                     [] tk.t = "clip" -> PushClipperOp(bb, tk.n)
RECURSIVE FoldToks(_, _, _)
\* (TLC passes operator arguments lazily; Len(bb.steps) < 0 is never true and only forces bb at
\*  every level, so that long token streams do not build a deep chain of suspended pushes)
FoldToks(bb, tk, p) == IF p > Len(tk) \/ Len(bb.steps) < 0 THEN bb ELSE FoldToks(PushTok(bb, tk[p]), tk, p + 1)
ShuntingYard(tk) == FinalizeOp(FoldToks(B0, tk, 1))

-----------------------------------------------------------------------------
(* One round of FormulaEvaluator.apply on a float stack (Python semantics)     *)

\* MetricFetcher.apply: None / NaN / inf -> 0.0 when nones_are_zeros else nan
Fetch(v, z) == IF Missing(v) THEN (IF z THEN R(0) ELSE NaN) ELSE R(v)
\* what the fetcher of metric i pushes.  Composition API: the leaf engine (from_receiver)
\* emits None or 0 for a missing input, the composed engine then applies its own flag.
Input(f, z, i, env) ==
    CASE f \in StrFronts -> Fetch(env[i], z.glob)
      [] f = "push" -> Fetch(env[i], z.leaf[i])
      [] f = "ho" -> LET lo == IF Missing(env[i]) THEN (IF z.leaf[i] THEN 0 ELSE None) ELSE env[i]
                     IN Fetch(lo, z.glob)

FGt(x, y) == ~IsNaN(x) /\ ~IsNaN(y) /\ RLt(y, x)      \* x > y on floats: FALSE with a NaN
PyMax(x, y) == IF FGt(y, x) THEN y ELSE x             \* Python max(x, y): x unless y > x
PyMin(x, y) == IF FGt(x, y) THEN y ELSE x             \* Python min(x, y): x unless y < x
FNeg(x) == IF IsNaN(x) THEN NaN ELSE RNeg(x)
FArith(op, x, y) == IF IsNaN(x) \/ IsNaN(y) THEN NaN
                    ELSE CASE op = "+" -> RAdd(x, y) [] op = "-" -> RSub(x, y)
                           [] op = "*" -> RMul(x, y) [] op = "/" -> RQuo(x, y)

\* Step semantics: Cur is the code as it is (Maximizer / Minimizer: nan if either operand is nan;
\* Divider: nan if the divisor is 0.0).  A legacy flag switches ONE step class back to what it
\* did before its repair; the legacy variants are only used to name the cause of a failing record.
Cur == [minmax |-> FALSE, div |-> FALSE]
LegMinMax == [minmax |-> TRUE, div |-> FALSE]
LegDiv == [minmax |-> FALSE, div |-> TRUE]
LegBoth == [minmax |-> TRUE, div |-> TRUE]

\* machine: the eval_stack, the exception that aborted the round, and two CAUSE flags that only
\* observe the operands (they do not depend on the semantics chosen):
\*   drop  a max/min step met a NaN second operand next to a number
\*   div0  a division step met a zero divisor
\*   clipnan  a clipper met a NaN (a missing value reached a clipper)
\*   clipact  a clipper changed a number
M0 == [st |-> <<>>, exc |-> "", drop |-> FALSE, div0 |-> FALSE, clipnan |-> FALSE, clipact |-> FALSE]
Push(m, x) == [m EXCEPT !.st = Append(m.st, x)]

ApplyStep(m, s, inp, lg) ==
    IF m.exc # "" THEN m
    ELSE IF s.t = "m" THEN Push(m, inp[s.n])
    ELSE IF s.t = "c" THEN Push(m, R(s.n))
    ELSE IF s.t = "clip" THEN                   \* Clipper.apply: val = max(val, lo); val = min(val, hi)
         IF Len(m.st) < 1 THEN [m EXCEPT !.exc = "IndexError"]
         ELSE LET v == m.st[Len(m.st)]
                  lo == Clips[s.n][1]
                  hi == Clips[s.n][2]
                  w == IF lo # None THEN PyMax(v, R(lo)) ELSE v
                  u == IF hi # None THEN PyMin(w, R(hi)) ELSE w IN
              [m EXCEPT !.st = Append(ButLast(m.st), u),
                        !.clipnan = m.clipnan \/ IsNaN(v),
                        !.clipact = m.clipact \/ (~IsNaN(v) /\ u # v)]
    ELSE IF s.s = "(" THEN m                                        \* OpenParen.apply: no-op
    ELSE IF s.s \in HOUnOps THEN
         IF Len(m.st) < 1 THEN [m EXCEPT !.exc = "IndexError"]
         ELSE LET v == m.st[Len(m.st)]
                  rest == ButLast(m.st) IN
              [m EXCEPT !.st = Append(rest, IF s.s = "consumption" THEN PyMax(v, R(0))
                                            ELSE PyMax(FNeg(v), R(0)))]
    ELSE IF Len(m.st) < 2 THEN [m EXCEPT !.exc = "IndexError"]
    ELSE LET v2 == m.st[Len(m.st)]
             v1 == m.st[Len(m.st) - 1]
             rest == SubSeq(m.st, 1, Len(m.st) - 2) IN
         IF s.s = "/" /\ RIsZero(v2)
         THEN IF lg.div THEN [m EXCEPT !.exc = "ZeroDivisionError", !.div0 = TRUE]   \* (also nan / 0.0)
              ELSE [m EXCEPT !.st = Append(rest, NaN), !.div0 = TRUE]
         ELSE IF s.s \in ArithOps THEN [m EXCEPT !.st = Append(rest, FArith(s.s, v1, v2))]
         ELSE LET py == IF s.s = "max" THEN PyMax(v1, v2) ELSE PyMin(v1, v2)
                  res == IF lg.minmax THEN py ELSE IF IsNaN(v1) \/ IsNaN(v2) THEN NaN ELSE py IN
              [m EXCEPT !.st = Append(rest, res),
                        !.drop = m.drop \/ (IsNaN(v2) /\ ~IsNaN(v1))]

RECURSIVE RunFrom(_, _, _, _, _)
\* an exception aborts the round (and inspecting m.exc forces m at every level, see FoldToks)
RunFrom(m, steps, p, inp, lg) ==
    IF p > Len(steps) \/ m.exc # "" THEN m ELSE RunFrom(ApplyStep(m, steps[p], inp, lg), steps, p + 1, inp, lg)
EvalPostfixSem(steps, inp, lg) == RunFrom(M0, steps, 1, inp, lg)
EvalPostfix(steps, inp) == EvalPostfixSem(steps, inp, Cur)

\* FormulaEvaluator.apply + FormulaEngine._run: one value per fetcher, all steps, then either a
\* sample (None for nan) or - when apply() raised - nothing at all for this timestamp
NoOut == [cnt |-> 0, v |-> NaN, exc |-> "", drop |-> FALSE, div0 |-> FALSE, clipnan |-> FALSE, clipact |-> FALSE]
RoundOfSem(f, z, bb, env, lg) ==
    LET inp == [i \in Metrics |-> IF InSeq(i, bb.fetchers) THEN Input(f, z, i, env) ELSE NaN]
        m == EvalPostfixSem(bb.steps, inp, lg)
        bad == m.exc # "" \/ Len(m.st) # 1
    IN [cnt |-> IF bad THEN 0 ELSE 1,
        v |-> IF bad THEN NaN ELSE m.st[1],
        exc |-> IF m.exc # "" THEN m.exc ELSE IF Len(m.st) # 1 THEN "RuntimeError" ELSE "",
        drop |-> m.drop, div0 |-> m.div0, clipnan |-> m.clipnan, clipact |-> m.clipact]
RoundOf(f, z, bb, env) == RoundOfSem(f, z, bb, env, Cur)

-----------------------------------------------------------------------------
(* Configurations                                                               *)
AllFalse == [i \in Metrics |-> FALSE]
Z0 == [leaf |-> AllFalse, glob |-> FALSE]
ZSet(f) ==
    IF ZMode = "none" THEN {Z0}
    ELSE CASE f \in StrFronts -> {[leaf |-> AllFalse, glob |-> g] : g \in BOOLEAN}
           [] f = "push" -> {[leaf |-> lf, glob |-> FALSE] : lf \in [Metrics -> BOOLEAN]}
           [] f = "ho" -> {[leaf |-> lf, glob |-> g] : lf \in [Metrics -> BOOLEAN], g \in BOOLEAN}

-----------------------------------------------------------------------------
(* The state machine                                                            *)
Init ==
    /\ pc = "idle" /\ prog = NoTree /\ front = "" /\ zc = Z0 /\ toks = <<>> /\ ip = 1
    /\ b = B0 /\ tick = 0 /\ cur = <<>> /\ last = NoOut /\ want = NaN /\ hist = <<>>

\* a program is written down through one of the front ends, with a nones_are_zeros setting
Pick(t, f, z) ==
    /\ pc = "idle"
    /\ pc' = "build" /\ prog' = t /\ front' = f /\ zc' = z
    /\ toks' = Render(f, t) /\ ip' = 1 /\ b' = B0
    /\ UNCHANGED <<tick, cur, last, want, hist>>

Feed(kind, bb) ==
    /\ pc = "build" /\ ip <= Len(toks) /\ toks[ip].t = kind
    /\ b' = bb /\ ip' = ip + 1
    /\ UNCHANGED <<pc, prog, front, zc, toks, tick, cur, last, want, hist>>
PushOper == Feed("op", PushOperOp(b, toks[ip].s))
PushMetric == Feed("m", PushMetricOp(b, toks[ip].n))
PushConstant == Feed("c", PushConstantOp(b, toks[ip].n))
PushClipper == Feed("clip", PushClipperOp(b, toks[ip].n))

\* FormulaBuilder.build -> finalize
Finalize ==
    /\ pc = "build" /\ ip > Len(toks)
    /\ b' = FinalizeOp(b) /\ pc' = "run"
    /\ UNCHANGED <<prog, front, zc, toks, ip, tick, cur, last, want, hist>>

\* one iteration of FormulaEngine._run on the inputs of one timestamp
Round(env) ==
    /\ pc = "run"
    /\ last' = RoundOf(front, zc, b, env)
    /\ want' = Intended(prog, front, zc, env)
    /\ cur' = env /\ tick' = tick + 1
    /\ UNCHANGED <<pc, prog, front, zc, toks, ip, b>>

\* the case handed to the replay: program, tokens, and per environment (= timestamp) the
\* intended value and the transcription's outcome <<count, n, d>>, as exact rationals
CaseRec(hh) ==
    [front |-> front, z |-> zc, tree |-> prog, toks |-> toks,
     exp |-> [k \in 1..Len(hh) |-> hh[k][1]],
     mod |-> [k \in 1..Len(hh) |-> hh[k][2]]]

PickStep == Mode = "exh" /\ pc = "idle" /\ \E f \in Fronts : \E t \in TreesOf(f), z \in ZSet(f) : Pick(t, f, z)
PushOperStep == pc = "build" /\ PushOper
PushMetricStep == pc = "build" /\ PushMetric
PushConstantStep == pc = "build" /\ PushConstant
PushClipperStep == pc = "build" /\ PushClipper
FinalizeStep == pc = "build" /\ Finalize
RoundStep ==
    /\ Mode \in {"exh", "sim"} /\ tick < Len(EnvSeq)
    /\ Round(EnvSeq[tick + 1])
    /\ hist' = Append(hist, <<want', <<last'.cnt, last'.v[1], last'.v[2]>>>>)
    /\ (tick' = Len(EnvSeq)) => Emit(CaseRec(hist'))

\* Mode "sim": deeper programs drawn pseudo-randomly.  The harness supplies only seeds (plain
\* integers in 1..65536); the program, the front end and the nones_are_zeros setting are
\* decoded from a seed HERE, with a small linear congruential generator, from the same grammar
\* as above.  Everything else (token pushes, Finalize, rounds, emission) is as in Mode "exh".
Lcg(x) == (x * 75 + 74) % 65537
Nth(sq, x) == sq[(x % Len(sq)) + 1]
ArithSeq == <<"+", "-", "*", "/">>
BinSeq == SelectSeq(<<"+", "-", "*", "/", "max", "min">>, LAMBDA o : o \in BinSet)
UnSeq == SelectSeq(<<"consumption", "production">>, LAMBDA o : o \in UnSet)
FrontSeq == SelectSeq(<<"smin", "sfull", "push", "ho">>, LAMBDA f : f \in Fronts)
MSeq == [i \in Metrics |-> M(i)]
KSeq == LET RECURSIVE Ks(_)
            Ks(S) == IF S = {} THEN <<>> ELSE LET v == CHOOSE v \in S : \A w \in S : v <= w IN <<C(v)>> \o Ks(S \ {v})
        IN Ks(KVals)

\* each generator returns <<tree, next generator state>>
RECURSIVE GenPlain(_, _, _, _), GenHO(_, _, _)
GenPlain(d, L, nc, x) ==
    LET x1 == Lcg(x)
        x2 == Lcg(x1) IN
    IF d = 0 \/ x1 % 5 = 0 THEN <<Nth(L, x2), x2>>
    ELSE IF nc > 0 /\ x1 % 5 = 1
    THEN LET a == GenPlain(d - 1, L, nc, Lcg(x2)) IN <<CL((x2 % nc) + 1, a[1]), a[2]>>
    ELSE LET lt == GenPlain(d - 1, L, nc, Lcg(x2))
             rt == GenPlain(d - 1, L, nc, lt[2])
         IN <<B(Nth(ArithSeq, x2), lt[1], rt[1]), rt[2]>>
GenHO(d, constOk, x) ==
    LET x1 == Lcg(x)
        x2 == Lcg(x1)
        x3 == Lcg(x2) IN
    IF d = 0 \/ x1 % 5 = 0
    THEN (IF constOk /\ KSeq # <<>> /\ x2 % 3 = 0 THEN <<Nth(KSeq, x3), x3>> ELSE <<Nth(MSeq, x3), x3>>)
    ELSE IF UnSeq # <<>> /\ x2 % 5 = 0
    THEN LET a == GenHO(d - 1, FALSE, x3) IN <<U(Nth(UnSeq, x3), a[1]), a[2]>>
    ELSE LET lt == GenHO(d - 1, FALSE, x3)
             rt == GenHO(d - 1, TRUE, lt[2])
         IN <<B(Nth(BinSeq, x3), lt[1], rt[1]), rt[2]>>
\* the root is always an operator application
GenRoot(f, x) ==
    LET x1 == Lcg(x) IN
    CASE f \in StrFronts ->
           LET lt == GenPlain(SimDepth - 1, MSeq, 0, Lcg(x1))
               rt == GenPlain(SimDepth - 1, MSeq, 0, lt[2]) IN B(Nth(ArithSeq, x1), lt[1], rt[1])
      [] f = "push" ->
           LET lt == GenPlain(SimDepth - 1, MSeq \o KSeq, Len(Clips), Lcg(x1))
               rt == GenPlain(SimDepth - 1, MSeq \o KSeq, Len(Clips), lt[2]) IN B(Nth(ArithSeq, x1), lt[1], rt[1])
      [] f = "ho" ->
           LET lt == GenHO(SimDepth - 1, FALSE, Lcg(x1))
               rt == GenHO(SimDepth - 1, TRUE, lt[2]) IN B(Nth(BinSeq, x1), lt[1], rt[1])
GenZ(f, x) ==
    LET bit(k) == ((x \div (2 ^ k)) % 2) = 1
        lf == [i \in Metrics |-> bit(i)] IN
    IF ZMode = "none" THEN Z0
    ELSE CASE f \in StrFronts -> [leaf |-> AllFalse, glob |-> bit(0)]
           [] f = "push" -> [leaf |-> lf, glob |-> FALSE]
           [] f = "ho" -> [leaf |-> lf, glob |-> bit(0)]
SimPickStep ==
    /\ Mode = "sim" /\ pc = "idle"
    /\ \E sd \in Seeds :
         LET f == Nth(FrontSeq, sd)
             t == GenRoot(f, sd)
             z == GenZ(f, Lcg(Lcg(sd + 7)))
         IN MetricsOf(t) # {} /\ Pick(t, f, z)

Next == PickStep \/ SimPickStep \/ PushOperStep \/ PushMetricStep \/ PushConstantStep \/ PushClipperStep
           \/ FinalizeStep \/ RoundStep

Spec == Init /\ [][Next]_vars

-----------------------------------------------------------------------------
(* Invariants                                                                   *)
Built == pc = "run" /\ tick = 0        \* the builder does not change afterwards
Ran == pc = "run" /\ tick > 0
Used == MetricsOf(prog)
Want == want

(* C05 *)
\* every finite environment without a zero divisor: the engine emits exactly the arithmetic value
CompileCorrect ==
    (Ran /\ Finite(cur, Used) /\ ~IsNaN(Want)) => (last.cnt = 1 /\ last.v = Want)
\* the rendering reads back, under ORDINARY precedence, as the program it came from
RenderFaithful == Built => OrdinaryParse(toks) = prog
\* a metric used several times has one fetcher (one sample consumed per timestamp)
SharedFetcher ==
    Built => /\ \A j, k \in 1..Len(b.fetchers) : b.fetchers[j] = b.fetchers[k] => j = k
             /\ {b.fetchers[j] : j \in 1..Len(b.fetchers)} = Used
             /\ \A j \in 1..Len(b.steps) : b.steps[j].t = "m" => InSeq(b.steps[j].n, b.fetchers)
\* token-by-token building equals the fold used by the trace specification; nothing is left
\* on the build stack and no parenthesis survives into the program
StepwiseEqualsFold ==
    Built => /\ b = ShuntingYard(toks)
             /\ b.bstack = <<>>
             /\ \A j \in 1..Len(b.steps) : b.steps[j].s \notin {"(", ")"}

(* C13 *)
\* a sample that is emitted is None exactly when the intended value is None
NoneIff == (Ran /\ last.cnt = 1) => (IsNaN(last.v) <=> IsNaN(Want))
\* missing values on streams configured as zero behave exactly like 0
ZeroWhenConfigured ==
    (Ran /\ HasMissing(cur, Used) /\ \A i \in Used : Missing(cur[i]) => ZEff(front, zc, i)) =>
        LET o == RoundOf(front, zc, b, Zeroed(cur)) IN
        /\ last.cnt = o.cnt /\ last.v = o.v
        /\ (~IsNaN(Want) => (last.cnt = 1 /\ last.v = Want))
\* every timestamp yields a sample
SampleAlways == Ran => last.cnt = 1

\* Former defects as cause predicates: the last round came out as the LEGACY semantics of one
\* step class give it, on an input where that class met its cause, and not as the current
\* semantics give it.  Never true of this specification's own behaviours (NoDevNow); the trace
\* specification evaluates the same predicates on recorded outputs of the real code.
SameOut(o1, o2) == o1.cnt = o2.cnt /\ o1.v = o2.v
Legacy(lg) == RoundOfSem(front, zc, b, cur, lg)
Current == RoundOfSem(front, zc, b, cur, Cur)
DevOf(lg, out) == LET o == Legacy(lg) IN SameOut(out, o) /\ ~SameOut(out, Current)
Dev_MinMaxDropsNaNOperand ==
    Ran /\ \E lg \in {LegMinMax, LegBoth} : Legacy(lg).drop /\ DevOf(lg, last)
Dev_DivisionByZeroDropsSample ==
    Ran /\ \E lg \in {LegDiv, LegBoth} : Legacy(lg).div0 /\ DevOf(lg, last)
NoDevNow == ~Dev_MinMaxDropsNaNOperand /\ ~Dev_DivisionByZeroDropsSample
\* the legacy semantics differ from the current ones only through the two causes
LegacyDiffersOnlyByCauses ==
    Ran => \A lg \in {LegMinMax, LegDiv, LegBoth} :
              ~SameOut(Legacy(lg), last) => (last.drop \/ last.div0)

=============================================================================
