-------------------------- MODULE FormulaSyncTrace --------------------------
(* Validates executions recorded from a real FormulaEngine / FormulaEngine3Phase *)
(* (real Broadcast channels, loop pumped by the harness) against FormulaSync.  *)
(*                                                                            *)
(* One trace per ndjson line:                                                 *)
(*   id, cfg ("single"|"3phase"), variant (how the harness pumped the loop),  *)
(*   first  = per stream first timestamp,                                     *)
(*   ev     = sequence of [a |-> "prod"|"start", s] in the order injected,    *)
(*   cnt    = number of samples the engine had emitted after each event,      *)
(*   out    = every sample the engine emitted, decoded: [ts, ins] where       *)
(*            ins[s] is the timestamp of the stream-s sample the VALUE was    *)
(*            computed from (the formula is sum of 16^s * value_s and the     *)
(*            value of a sample is its timestamp index; None = -99)           *)
(* The injected events are re-executed as Produce / StartConsumer; between    *)
(* two events the spec's consumer runs to quiescence in a canonical order     *)
(* (FormulaSync!ScheduleIndependent, checked by TLC on the model, says the    *)
(* order is immaterial).  Every C06 clause is evaluated on the recorded       *)
(* output of the code.                                                        *)
EXTENDS FormulaSync

VARIABLES tid, l
tvars == <<vars, tid, l>>

TraceLog == ndJsonDeserialize(IOEnv.TRACE_FILE)
Tr == TraceLog[tid]
NE == Len(Tr.ev)

Say(v) == CSVWrite("%1$s", <<ToJson(v)>>, IOEnv.VERDICT_FILE)
CheckD(ok, clause, detail, devs) ==
    IF ok THEN TRUE ELSE Say([tid |-> Tr.id, l |-> l, clause |-> clause, detail |-> detail, deviations |-> devs])
Check(ok, clause, detail) == CheckD(ok, clause, detail, <<>>)

TInit ==
    /\ tid \in 1..Len(TraceLog)
    /\ l = 1
    /\ first = [s \in Streams |-> Tr.first[s]]
    /\ next = first
    /\ q = [s \in Streams |-> <<>>]
    /\ started = FALSE /\ firstRun = TRUE /\ pc = "fetch"
    /\ cur = AllNone /\ latest = None /\ syn = 0 /\ ts = None
    /\ mid = [s \in Streams |-> <<>>] /\ zi = 1
    /\ out = <<>>
    /\ h = <<>>

\* the consumer's next step in a fixed order.  The replay never commits the synchronisation to a
\* stream that has nothing buffered (the code may be blocked on another one), so it consumes at
\* least what the code has consumed at every point and the Produce guards stay satisfiable.
FSet == {s \in Streams : CanFetch(s)}
YSet == {s \in Streams : CanSyncWait(s) /\ q[s] # <<>>}
PSet == {s \in Streams : CanPhase(s)}
CanonEnabled == FSet # {} \/ CanRound \/ CanSync \/ YSet # {} \/ CanSyncDone \/ CanEmit \/ PSet # {} \/ CanZip
CanonStep ==
    IF FSet # {} THEN Fetch(SetMin(FSet))
    ELSE IF CanRound THEN FetchRound(1)
    ELSE IF CanSync THEN SyncFetch
    ELSE IF YSet # {} THEN SyncWait(SetMin(YSet))
    ELSE IF CanSyncDone THEN SyncDone
    ELSE IF CanEmit THEN EmitOut
    ELSE IF PSet # {} THEN PhaseEngine(SetMin(PSet))
    ELSE ZipRecv

Silent ==
    /\ CanonEnabled
    /\ CanonStep
    /\ UNCHANGED <<h, tid, l>>

\* the code cannot have emitted more than the inputs delivered so far determine, and what it
\* had emitted is the beginning of what the specification has emitted by then
CausalCheck(k) ==
    k >= 1 =>
      /\ Check(Tr.cnt[k] <= Len(out), "C06.Causal", <<"event", k, "emitted", Tr.cnt[k], "possible", Len(out)>>)

ConsumeEvent ==
    /\ ~CanonEnabled
    /\ l <= NE
    /\ CausalCheck(l - 1)
    /\ LET e == Tr.ev[l] IN
         IF e.a = "prod" THEN Produce(e.s) ELSE StartConsumer
    /\ l' = l + 1
    /\ UNCHANGED <<h, tid>>

FinalChecks ==
    LET o == Tr.out IN
    /\ CausalCheck(NE)
    /\ \A i \in 1..Len(o) :
         IF Config = "single"
         THEN Check(Aligned(o[i]), "C06.SingleTimestamp", <<"sample", i, "ts", o[i].ts, "inputs", o[i].ins>>)
         ELSE CheckD(Aligned(o[i]), "C06.ThreePhaseSingleTimestamp",
                     <<"sample", i, "ts", o[i].ts, "inputs", o[i].ins, "first", Tr.first>>,
                     IF Dev_ThreePhaseNotAligned(i, o[i]) THEN <<"Dev_ThreePhaseNotAligned">> ELSE <<>>)
    /\ Check(ConsecutiveOf(o), "C06.Consecutive",
             <<"timestamps", [i \in 1..Len(o) |-> o[i].ts], "firstCommon", MaxFirst>>)
    /\ Check(Len(o) = Len(out) /\ \A i \in 1..Len(o) : o[i].ts = out[i].ts /\ o[i].ins = out[i].ins,
             "C06.ScheduleIndependent",
             <<"variant", Tr.variant, "code", [i \in 1..Len(o) |-> o[i].ts], "spec", [i \in 1..Len(out) |-> out[i].ts]>>)

Final ==
    /\ ~CanonEnabled
    /\ l = NE + 1
    /\ FinalChecks
    /\ l' = l + 1
    /\ UNCHANGED <<vars, tid>>
    /\ Say([tid |-> Tr.id, done |-> TRUE])

TNext == Silent \/ ConsumeEvent \/ Final

=============================================================================
