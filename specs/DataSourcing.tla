---------------------------- MODULE DataSourcing ----------------------------
(* DataSourcingActor + MicrogridApiSource: every data message that the source *)
(* receives from the microgrid API for a component is converted into one      *)
(* sample per subscribed (namespace, metric) stream and delivered exactly     *)
(* once and in order; a new subscription cancels and recreates the            *)
(* per-component streaming task without disturbing the existing streams.     *)
(*                                                                            *)
(* Structured like the code (data_sourcing.py, microgrid_api_source.py):      *)
(*   ApiMsg(c)       the API stream of component c produces its next message  *)
(*                   (only buffered if the source already holds a receiver)   *)
(*   Request(r)      a client puts a ComponentMetricRequest on the channel    *)
(*   ActorRecv       one turn of `async for request` + add_metric: unknown    *)
(*                   component -> nothing; same channel name -> nothing;      *)
(*                   else record it and _update_streams (cancel + recreate)   *)
(*   ActorTake/Add   the same in two steps when _get_component_category has   *)
(*                   to ask the API (empty cache or unknown id): the actor    *)
(*                   may be suspended between taking and handling the request *)
(*   ApiListFails    EXTENSION (not in C20's stated quantifier): the API's    *)
(*                   components() call will raise once                        *)
(*   ActorCrash      the category lookup raises: add_metric raises, _run ends,*)
(*                   the request in hand is dropped (never a subscription)    *)
(*   ActorRestart    Actor._run_loop calls _run again after RESTART_DELAY;    *)
(*                   subscriptions, handler tasks, API receivers and the      *)
(*                   dedupe state survive (they live in the source object     *)
(*                   created in __init__), queued requests are still queued   *)
(*   HandlerStart(c) the created task starts _handle_data_stream: API receiver*)
(*                   (created once), senders for the subscriptions of NOW     *)
(*   HandlerRecv(c)  one turn of `async for data in api_data_receiver`: a     *)
(*                   process_msg task holding the handler's senders is created*)
(*   Send(c, k)      one sender.send task of the TaskGroup delivers on k      *)
(* A cancelled handler leaves its process_msg tasks running (fan), and the    *)
(* API receiver (apiq) is shared by all handler epochs of a component.        *)
(*                                                                            *)
(* C20 clauses: ExactlyOnceInOrder, NoApiMessageLost, ExistingSubsUndisturbed,*)
(*   DuplicateRequestNoEffect, UnknownComponentHarmless, QuiescentAllDelivered*)
(*   EventuallyDelivered (liveness).  ValueAndTimestamp is a clause of the    *)
(*   trace specification (values exist only in recorded executions).          *)
EXTENDS Integers, Sequences, FiniteSets, TLC, Json, CSV, IOUtils

CONSTANTS Comps,       \* set of component ids known to the API (1..NC)
          Unknown,     \* a component id the API does not know
          Namespaces,  \* 1..NN
          Metrics,     \* 1..NM
          Starts,      \* start_time values: 0 = None, 1 = some fixed datetime
          ReqSet,      \* requests clients may send: set of [c, ns, m, st]
          MaxMsg,      \* total number of API messages
          MaxReq,      \* total number of requests
          MaxFail,     \* total number of transient components() failures (extension; 0 = none)
          MaxDepth,    \* history bound (generation only)
          Mode         \* "mc" | "gen" | "env" | "sim" | "trace"

VARIABLES nmsg,       \* c -> number of messages the API stream of c has produced (ids 1..nmsg[c])
          hasrecv,    \* c -> the source holds an API receiver for c (comp_data_receivers)
          recvFrom,   \* c -> id of the first message that receiver got (ghost)
          apiq,       \* c -> buffer of that receiver
          reqq,       \* requests channel
          cur,        \* request the actor has taken and is looking up in the API (NoReq: none)
          cached,     \* _comp_categories_cache is filled
          fail,       \* the next components() call raises
          astate,     \* "run" | "crashed" (the actor waits for its restart delay)
          nfail,
          subs,       \* installed subscriptions (_req_streaming_metrics), set of keys
          hst,        \* c -> "none" | "created" | "running"   (comp_data_tasks[c])
          epoch,      \* c -> number of handler tasks created so far
          snap,       \* c -> subscriptions the running handler holds senders for
          fan,        \* c -> FIFO of process_msg tasks [id, todo]: sends not yet done
          consumed,   \* c -> ids taken from the API receiver, in order (ghost)
          delivered,  \* key -> ids delivered on that stream, in order
          inst,       \* key -> 0, or 1 + Len(consumed[c]) when the actor took the request (ghost)
          nreq,
          h           \* history of actions (hidden by VIEW)

vars == <<nmsg, hasrecv, recvFrom, apiq, reqq, cur, cached, fail, astate, nfail, subs, hst, epoch, snap, fan, consumed, delivered, inst, nreq, h>>
View == <<nmsg, hasrecv, recvFrom, apiq, reqq, cur, cached, fail, astate, nfail, subs, hst, epoch, snap, fan, consumed, delivered, inst, nreq>>

\* a subscription is identified by exactly what determines the channel name
\* (ComponentMetricRequest.get_channel_name: namespace, component, metric, start_time)
Keys == [c : Comps, ns : Namespaces, m : Metrics, st : Starts]
KeyOf(r) == [c |-> r.c, ns |-> r.ns, m |-> r.m, st |-> r.st]
NoReq == [c |-> 0, ns |-> 0, m |-> 0, st |-> 0]
SubsOf(c) == {k \in subs : k.c = c}

EmitOn == "OUT_FILE" \in DOMAIN IOEnv
Emit(v) == IF EmitOn THEN CSVWrite("%1$s", <<ToJson(v)>>, IOEnv.OUT_FILE) ELSE TRUE

RECURSIVE SumOver(_, _)
SumOver(f, S) == IF S = {} THEN 0 ELSE LET x == CHOOSE y \in S : TRUE IN f[x] + SumOver(f, S \ {x})

Init ==
    /\ nmsg = [c \in Comps |-> 0]
    /\ hasrecv = [c \in Comps |-> FALSE]
    /\ recvFrom = [c \in Comps |-> 0]
    /\ apiq = [c \in Comps |-> <<>>]
    /\ reqq = <<>>
    /\ cur = NoReq
    /\ cached = FALSE
    /\ fail = FALSE /\ astate = "run" /\ nfail = 0
    /\ subs = {}
    /\ hst = [c \in Comps |-> "none"]
    /\ epoch = [c \in Comps |-> 0]
    /\ snap = [c \in Comps |-> {}]
    /\ fan = [c \in Comps |-> <<>>]
    /\ consumed = [c \in Comps |-> <<>>]
    /\ delivered = [k \in Keys |-> <<>>]
    /\ inst = [k \in Keys |-> 0]
    /\ nreq = 0
    /\ h = <<>>

ApiMsg(c) ==
    /\ SumOver(nmsg, Comps) < MaxMsg
    /\ nmsg' = [nmsg EXCEPT ![c] = @ + 1]
    /\ apiq' = IF hasrecv[c] THEN [apiq EXCEPT ![c] = Append(@, nmsg[c] + 1)] ELSE apiq
    /\ UNCHANGED <<hasrecv, recvFrom, reqq, cur, cached, subs, hst, epoch, snap, fan, consumed, delivered, inst, nreq>>
    /\ UNCHANGED <<fail, astate, nfail>>

Request(r) ==
    /\ nreq < MaxReq
    /\ nreq' = nreq + 1
    /\ reqq' = Append(reqq, r)
    /\ UNCHANGED <<nmsg, hasrecv, recvFrom, apiq, cur, cached, subs, hst, epoch, snap, fan, consumed, delivered, inst>>
    /\ UNCHANGED <<fail, astate, nfail>>

\* add_metric after the category is known
Install(r) ==
    IF r.c \notin Comps \/ KeyOf(r) \in subs
    THEN UNCHANGED <<subs, hst, epoch, snap>>
    ELSE /\ subs' = subs \cup {KeyOf(r)}
         /\ hst' = [hst EXCEPT ![r.c] = "created"]        \* cancel + create_task
         /\ epoch' = [epoch EXCEPT ![r.c] = @ + 1]
         /\ snap' = [snap EXCEPT ![r.c] = {}]              \* the cancelled handler is gone
\* ghost: the position in the component's consumed sequence from which the stream is owed
Owed(r) ==
    inst' = IF r.c \in Comps /\ KeyOf(r) \notin subs THEN [inst EXCEPT ![KeyOf(r)] = Len(consumed[r.c]) + 1] ELSE inst
NeedsLookup(r) == ~cached \/ r.c \notin Comps

ActorRecv ==
    /\ astate = "run" /\ reqq # <<>> /\ cur = NoReq /\ ~NeedsLookup(Head(reqq))
    /\ reqq' = Tail(reqq)
    /\ Install(Head(reqq)) /\ Owed(Head(reqq))
    /\ UNCHANGED <<nmsg, hasrecv, recvFrom, apiq, cur, cached, fan, consumed, delivered, nreq>>
    /\ UNCHANGED <<fail, astate, nfail>>

ActorTake ==
    /\ astate = "run" /\ reqq # <<>> /\ cur = NoReq /\ NeedsLookup(Head(reqq))
    /\ reqq' = Tail(reqq)
    /\ cur' = Head(reqq) /\ Owed(Head(reqq))
    /\ UNCHANGED <<nmsg, hasrecv, recvFrom, apiq, cached, subs, hst, epoch, snap, fan, consumed, delivered, nreq>>
    /\ UNCHANGED <<fail, astate, nfail>>

ActorAdd ==
    /\ cur # NoReq /\ ~fail                       \* components() returns
    /\ cur' = NoReq /\ cached' = TRUE
    /\ Install(cur)
    /\ UNCHANGED <<nmsg, hasrecv, recvFrom, apiq, reqq, fan, consumed, delivered, inst, nreq>>
    /\ UNCHANGED <<fail, astate, nfail>>

ApiListFails ==
    /\ nfail < MaxFail                          \* (arming an armed failure changes nothing)
    /\ fail' = TRUE /\ nfail' = nfail + 1
    /\ UNCHANGED <<nmsg, hasrecv, recvFrom, apiq, reqq, cur, cached, astate, subs, hst, epoch, snap, fan, consumed, delivered, inst, nreq>>

\* components() raises inside _get_component_category: the request in hand is dropped, the cache stays
\* as it was, nothing of the source object changes
ActorCrash ==
    /\ cur # NoReq /\ fail
    /\ fail' = FALSE /\ astate' = "crashed" /\ cur' = NoReq
    /\ inst' = IF cur.c \in Comps /\ KeyOf(cur) \notin subs THEN [inst EXCEPT ![KeyOf(cur)] = 0] ELSE inst
    /\ UNCHANGED <<nmsg, hasrecv, recvFrom, apiq, reqq, cached, nfail, subs, hst, epoch, snap, fan, consumed, delivered, nreq>>

ActorRestart ==
    /\ astate = "crashed"
    /\ astate' = "run"
    /\ UNCHANGED <<nmsg, hasrecv, recvFrom, apiq, reqq, cur, cached, fail, nfail, subs, hst, epoch, snap, fan, consumed, delivered, inst, nreq>>

HandlerStart(c) ==
    /\ hst[c] = "created"
    /\ hst' = [hst EXCEPT ![c] = "running"]
    /\ snap' = [snap EXCEPT ![c] = SubsOf(c)]
    /\ hasrecv' = [hasrecv EXCEPT ![c] = TRUE]
    /\ recvFrom' = IF hasrecv[c] THEN recvFrom ELSE [recvFrom EXCEPT ![c] = nmsg[c] + 1]
    /\ UNCHANGED <<nmsg, apiq, reqq, cur, cached, subs, epoch, fan, consumed, delivered, inst, nreq>>
    /\ UNCHANGED <<fail, astate, nfail>>

Prune(f) == SelectSeq(f, LAMBDA j : j.todo # {})

HandlerRecv(c) ==
    /\ hst[c] = "running"
    /\ apiq[c] # <<>>
    /\ apiq' = [apiq EXCEPT ![c] = Tail(@)]
    /\ consumed' = [consumed EXCEPT ![c] = Append(@, Head(apiq[c]))]
    /\ fan' = [fan EXCEPT ![c] = Prune(Append(@, [id |-> Head(apiq[c]), todo |-> snap[c]]))]
    /\ UNCHANGED <<nmsg, hasrecv, recvFrom, reqq, cur, cached, subs, hst, epoch, snap, delivered, inst, nreq>>
    /\ UNCHANGED <<fail, astate, nfail>>

\* the oldest process_msg task that still has to send on k
FirstFor(c, k) == LET S == {i \in 1..Len(fan[c]) : k \in fan[c][i].todo}
                  IN IF S = {} THEN 0 ELSE CHOOSE i \in S : \A j \in S : i <= j

Send(c, k) ==
    /\ k.c = c
    /\ FirstFor(c, k) # 0
    /\ LET i == FirstFor(c, k) IN
         /\ delivered' = [delivered EXCEPT ![k] = Append(@, fan[c][i].id)]
         /\ fan' = [fan EXCEPT ![c] = Prune([@ EXCEPT ![i].todo = @ \ {k}])]
    /\ UNCHANGED <<nmsg, hasrecv, recvFrom, apiq, reqq, cur, cached, subs, hst, epoch, snap, consumed, inst, nreq>>
    /\ UNCHANGED <<fail, astate, nfail>>

----------------------------------------------------------------------------
Rec(a, c, ns, m, st) == [a |-> a, c |-> c, ns |-> ns, m |-> m, st |-> st]
Generating == Mode \in {"gen", "env", "sim"}
Gen == Generating => Len(h) < MaxDepth
Log(r) == h' = (IF Generating THEN Append(h, r) ELSE h)
EmitRule == Mode \in {"gen", "env"} => Emit(h')
IntOn == Mode # "env"          \* "env": only the environment's event orders are enumerated

MsgStep == Gen /\ (\E c \in Comps : ApiMsg(c) /\ Log(Rec("msg", c, 0, 0, 0))) /\ EmitRule
FailStep == Gen /\ ApiListFails /\ Log(Rec("fail", 0, 0, 0, 0)) /\ EmitRule
ReqStep == Gen /\ (\E r \in ReqSet : Request(r) /\ Log(Rec("req", r.c, r.ns, r.m, r.st))) /\ EmitRule
RecvStep == IntOn /\ Gen /\ (ActorRecv \/ ActorTake) /\ Log(Rec("int", 0, 0, 0, 0)) /\ EmitRule
AddStep == IntOn /\ Gen /\ ActorAdd /\ Log(Rec("int", 0, 0, 0, 0)) /\ EmitRule
CrashStep == IntOn /\ Gen /\ ActorCrash /\ Log(Rec("int", 0, 0, 0, 0)) /\ EmitRule
RestartStep == IntOn /\ Gen /\ ActorRestart /\ Log(Rec("int", 0, 0, 0, 0)) /\ EmitRule
StartStep == IntOn /\ Gen /\ (\E c \in Comps : HandlerStart(c) /\ Log(Rec("int", 0, 0, 0, 0))) /\ EmitRule
ConsStep == IntOn /\ Gen /\ (\E c \in Comps : HandlerRecv(c) /\ Log(Rec("int", 0, 0, 0, 0))) /\ EmitRule
SendStep == IntOn /\ Gen /\ (\E k \in Keys : Send(k.c, k) /\ Log(Rec("int", 0, 0, 0, 0))) /\ EmitRule

Next == MsgStep \/ ReqStep \/ FailStep \/ RecvStep \/ AddStep \/ CrashStep \/ RestartStep \/ StartStep \/ ConsStep \/ SendStep

Spec == Init /\ [][Next]_vars
FairSpec == /\ Spec
            /\ WF_vars(RecvStep) /\ WF_vars(AddStep) /\ WF_vars(CrashStep) /\ WF_vars(RestartStep)
            /\ \A c \in Comps : WF_vars(HandlerStart(c) /\ Log(Rec("int", 0, 0, 0, 0)))
            /\ \A c \in Comps : WF_vars(HandlerRecv(c) /\ Log(Rec("int", 0, 0, 0, 0)))
            /\ \A k \in Keys : WF_vars(Send(k.c, k) /\ Log(Rec("int", 0, 0, 0, 0)))


----------------------------------------------------------------------------
(* C20 *)
RECURSIVE PendFrom(_, _, _)
PendFrom(f, k, i) == IF i > Len(f) THEN <<>>
                     ELSE (IF k \in f[i].todo THEN <<f[i].id>> ELSE <<>>) \o PendFrom(f, k, i + 1)
\* what stream k has received or is about to receive from tasks that already exist
Stream(k) == delivered[k] \o PendFrom(fan[k.c], k, 1)

\* every stream is exactly the run of messages consumed from the API receiver, beginning no later
\* than the first message consumed after the actor took the request: no loss, no duplicate, in order
ExactlyOnceInOrder ==
    \A k \in Keys :
        LET C == consumed[k.c] IN
        IF inst[k] = 0 THEN Stream(k) = <<>>
        ELSE \E s \in 1..inst[k] : Stream(k) = SubSeq(C, s, Len(C))

\* the API receiver's messages are consumed in order without a gap, none is skipped
NoApiMessageLost ==
    \A c \in Comps :
        LET A == consumed[c] \o apiq[c] IN
        IF hasrecv[c] THEN /\ \A i \in 1..Len(A) : A[i] = recvFrom[c] + i - 1
                           /\ recvFrom[c] + Len(A) - 1 = nmsg[c]
        ELSE A = <<>>

IsPrefix(s, t) == Len(s) <= Len(t) /\ SubSeq(t, 1, Len(s)) = s
\* the request whose handling (add_metric past the category lookup) this step completes, if any
Handled == IF cur # NoReq /\ cur' = NoReq THEN cur
           ELSE IF reqq # <<>> /\ reqq' = Tail(reqq) /\ nreq' = nreq /\ cur' = NoReq THEN Head(reqq)
           ELSE NoReq
ActorStep == cur' # cur \/ (reqq # <<>> /\ reqq' = Tail(reqq) /\ nreq' = nreq)
\* a step never removes, reorders or repeats what an installed stream has or is due to get, and the
\* step that installs a subscription (cancel + recreate) leaves deliveries and pending work untouched
ExistingSubsUndisturbed ==
    [][/\ \A k \in Keys : k \in subs => (inst'[k] = inst[k] /\ IsPrefix(Stream(k), Stream(k)'))
       /\ ActorStep => UNCHANGED <<delivered, fan, apiq, consumed, nmsg, hasrecv>>]_vars

NoEffect == UNCHANGED <<nmsg, hasrecv, recvFrom, apiq, subs, hst, epoch, snap, fan, consumed, delivered, inst>>
DuplicateRequestNoEffect ==
    [][(Handled # NoReq /\ Handled.c \in Comps /\ KeyOf(Handled) \in subs) => NoEffect]_vars
UnknownComponentHarmless ==
    [][/\ (Handled # NoReq /\ Handled.c \notin Comps) => NoEffect
       /\ (cur = NoReq /\ cur' # NoReq /\ cur'.c \notin Comps) => NoEffect]_vars

\* nothing internal is enabled
Quiescent == /\ reqq = <<>> /\ cur = NoReq /\ astate = "run"
             /\ \A c \in Comps : hst[c] # "created" /\ fan[c] = <<>> /\ (hst[c] = "running" => apiq[c] = <<>>)
\* simulation: one emitted behaviour per run (at the depth bound, or when nothing is left to do)
SimEmit == (Mode = "sim" /\ (Len(h) = MaxDepth \/ (Quiescent /\ nreq = MaxReq /\ SumOver(nmsg, Comps) = MaxMsg /\ nfail = MaxFail))) => Emit(h)

QuiescentAllDelivered ==
    Quiescent => \A k \in Keys : inst[k] # 0 =>
        /\ Len(delivered[k]) >= Len(consumed[k.c]) - inst[k] + 1
        /\ (hasrecv[k.c] /\ Len(consumed[k.c]) > 0) => consumed[k.c][Len(consumed[k.c])] = nmsg[k.c]

\* liveness (FairSpec): the n-th message consumed after installation reaches the stream
EventuallyDelivered ==
    \A k \in Keys, n \in 1..MaxMsg :
        (inst[k] # 0 /\ Len(consumed[k.c]) >= inst[k] + n - 1) ~> (Len(delivered[k]) >= n)

TypeOK == /\ \A c \in Comps : hst[c] \in {"none", "created", "running"} /\ snap[c] \subseteq SubsOf(c)
          /\ \A c \in Comps : (hst[c] = "running") => (snap[c] = SubsOf(c) /\ hasrecv[c])
          /\ \A k \in Keys : (inst[k] # 0) <=> (k \in subs \/ (cur # NoReq /\ KeyOf(cur) = k))
          /\ (cur # NoReq /\ cur.c \in Comps) => (~cached /\ subs = {})
          /\ astate \in {"run", "crashed"} /\ (astate = "crashed" => cur = NoReq)
=============================================================================
