-------------------------- MODULE PowerDistributor --------------------------
(* PowerDistributingActor: per component group at most one distribution in    *)
(* flight, one pending slot (latest wins), pending started from the done      *)
(* callback of the finished task (whether it returned or raised).            *)
(*                                                                            *)
(* Structured like the code (power_distributing.py):                          *)
(*   Send        a client puts a Request on the requests channel              *)
(*   ActorRecv   one turn of `async for request in receiver` in _run          *)
(*   Enter       the created task starts running distribute_power             *)
(*   Resolve     the underlying distribution finishes (environment)           *)
(*   Exit        distribute_power returns / raises, the task is done          *)
(*   Callback    _handle_task_completion: start pending or clear              *)
(* C14 clauses: NoOverlap, PendingIsLatest, EnteredIncreasing,                *)
(*   QuiescentLatestApplied, DisjointIndependent, LastRequestApplied (live)   *)
EXTENDS Integers, Sequences, FiniteSets, TLC, Json, CSV, IOUtils

CONSTANTS Groups,    \* set of component groups (1..NG)
          MaxReq,    \* number of requests the clients send (ids 1..MaxReq in send order)
          MaxDepth,  \* history bound (generation only)
          MaxRestart, \* how often the actor's run loop is cancelled and started again (generation only)
          Mode       \* "mc" | "gen" | "sim" | "trace"

VARIABLES chan,         \* requests channel: sequence of [g, p]
          infl,         \* g -> [p, st, o]: in-flight request id, task state, outcome
          pend,         \* g -> pending request id or 0
          nsent, lastSent, lastRecv, lastEntered,
          nrun,         \* g -> number of distribute_power calls currently executing
          nrestart,     \* number of actor restarts so far (the actor's dictionaries survive a restart)
          h             \* history of actions (hidden by VIEW)

vars == <<chan, infl, pend, nsent, lastSent, lastRecv, lastEntered, nrun, nrestart, h>>
View == <<chan, infl, pend, nsent, lastSent, lastRecv, lastEntered, nrun, nrestart>>

NoTask == [p |-> 0, st |-> "none", o |-> "none"]
Outcomes == {"ok", "exc"}

EmitOn == "OUT_FILE" \in DOMAIN IOEnv
Emit(v) == IF EmitOn THEN CSVWrite("%1$s", <<ToJson(v)>>, IOEnv.OUT_FILE) ELSE TRUE

Init ==
    /\ chan = <<>>
    /\ infl = [g \in Groups |-> NoTask]
    /\ pend = [g \in Groups |-> 0]
    /\ nsent = 0
    /\ lastSent = [g \in Groups |-> 0]
    /\ lastRecv = [g \in Groups |-> 0]
    /\ lastEntered = [g \in Groups |-> 0]
    /\ nrun = [g \in Groups |-> 0]
    /\ nrestart = 0
    /\ h = <<>>

Send(g) ==
    /\ nsent < MaxReq
    /\ nsent' = nsent + 1
    /\ chan' = Append(chan, [g |-> g, p |-> nsent + 1])
    /\ lastSent' = [lastSent EXCEPT ![g] = nsent + 1]
    /\ UNCHANGED <<infl, pend, lastRecv, lastEntered, nrun, nrestart>>

ActorRecv ==
    /\ chan # <<>>
    /\ LET r == Head(chan) IN
         /\ IF infl[r.g].st # "none"
            THEN pend' = [pend EXCEPT ![r.g] = r.p] /\ UNCHANGED infl
            ELSE infl' = [infl EXCEPT ![r.g] = [p |-> r.p, st |-> "created", o |-> "none"]] /\ UNCHANGED pend
         /\ lastRecv' = [lastRecv EXCEPT ![r.g] = r.p]
    /\ chan' = Tail(chan)
    /\ UNCHANGED <<nsent, lastSent, lastEntered, nrun, nrestart>>

Enter(g) ==
    /\ infl[g].st = "created"
    /\ infl' = [infl EXCEPT ![g].st = "running"]
    /\ lastEntered' = [lastEntered EXCEPT ![g] = infl[g].p]
    /\ nrun' = [nrun EXCEPT ![g] = @ + 1]
    /\ UNCHANGED <<chan, pend, nsent, lastSent, lastRecv, nrestart>>

Resolve(g, o) ==
    /\ infl[g].st = "running" /\ infl[g].o = "none"
    /\ infl' = [infl EXCEPT ![g].o = o]
    /\ UNCHANGED <<chan, pend, nsent, lastSent, lastRecv, lastEntered, nrun, nrestart>>

Exit(g) ==
    /\ infl[g].st = "running" /\ infl[g].o # "none"
    /\ infl' = [infl EXCEPT ![g].st = "finished"]
    /\ nrun' = [nrun EXCEPT ![g] = @ - 1]
    /\ UNCHANGED <<chan, pend, nsent, lastSent, lastRecv, lastEntered, nrestart>>

Callback(g) ==
    /\ infl[g].st = "finished"
    /\ IF pend[g] # 0
       THEN /\ infl' = [infl EXCEPT ![g] = [p |-> pend[g], st |-> "created", o |-> "none"]]
            /\ pend' = [pend EXCEPT ![g] = 0]
       ELSE /\ infl' = [infl EXCEPT ![g] = NoTask]
            /\ UNCHANGED pend
    /\ UNCHANGED <<chan, nsent, lastSent, lastRecv, lastEntered, nrun, nrestart>>

----------------------------------------------------------------------------
Rec(a, g, o) == [a |-> a, g |-> g, o |-> o]
Gen == Mode \in {"gen", "sim"} => Len(h) < MaxDepth
Log(r) == h' = (IF Mode \in {"gen", "sim"} THEN Append(h, r) ELSE h)
EmitRule == Mode = "gen" => Emit(h')

\* the label o of a send tells the harness whether that request's distribution completes without
\* suspending ("ok"/"exc": instant) or parks until a Resolve ("")
Inst == IF Mode \in {"gen", "sim"} THEN {"", "ok", "exc"} ELSE {""}
SendStep == Gen /\ (\E g \in Groups, i \in Inst : Send(g) /\ Log(Rec("send", g, i))) /\ EmitRule
RecvStep == Gen /\ ActorRecv /\ Log(Rec("int", 0, "")) /\ EmitRule
EnterStep == Gen /\ (\E g \in Groups : Enter(g) /\ Log(Rec("int", g, ""))) /\ EmitRule
ResolveStep == Gen /\ (\E g \in Groups, o \in Outcomes : Resolve(g, o) /\ Log(Rec("resolve", g, o))) /\ EmitRule
ExitStep == Gen /\ (\E g \in Groups : Exit(g) /\ Log(Rec("int", g, ""))) /\ EmitRule
CallbackStep == Gen /\ (\E g \in Groups : Callback(g) /\ Log(Rec("int", g, ""))) /\ EmitRule

\* The run loop of the actor is cancelled and started again (stop()/start(), or a crash followed
\* by the automatic restart).  Distribution tasks are not owned by the run loop and the actor's
\* dictionaries are attributes of the object, so nothing of the modelled state changes; requests
\* sent meanwhile wait in the channel.
Restart == /\ nrestart' = nrestart + 1
           /\ UNCHANGED <<chan, infl, pend, nsent, lastSent, lastRecv, lastEntered, nrun>>
RestartStep == Gen /\ Mode \in {"gen", "sim"} /\ nrestart < MaxRestart /\ Restart /\ Log(Rec("restart", 0, "")) /\ EmitRule

Next == SendStep \/ RecvStep \/ EnterStep \/ ResolveStep \/ ExitStep \/ CallbackStep \/ RestartStep

Internal == RecvStep \/ EnterStep \/ ExitStep \/ CallbackStep
Spec == Init /\ [][Next]_vars
FairSpec == /\ Spec
            /\ WF_vars(RecvStep) /\ WF_vars(EnterStep) /\ WF_vars(ExitStep) /\ WF_vars(CallbackStep)
            /\ \A g \in Groups : WF_vars(\E o \in Outcomes : Resolve(g, o) /\ Log(Rec("resolve", g, o)))

SimEmit == (Mode = "sim" /\ Len(h) = MaxDepth) => Emit(h)

----------------------------------------------------------------------------
(* C14 *)
NoOverlap == \A g \in Groups : nrun[g] <= 1
PendingIsLatest == \A g \in Groups : pend[g] # 0 => (pend[g] = lastRecv[g] /\ pend[g] > infl[g].p /\ infl[g].st # "none")
EnteredIncreasing == [][\A g \in Groups : lastEntered'[g] >= lastEntered[g]]_vars
\* nothing internal is enabled: every group either has its last request applied or that request
\* waits (as the pending one) behind a distribution that has not finished yet
Quiescent == chan = <<>> /\ \A g \in Groups : infl[g].st = "none" \/ (infl[g].st = "running" /\ infl[g].o = "none")
QuiescentLatestApplied ==
    Quiescent => \A g \in Groups :
        lastSent[g] # 0 =>
            \/ lastEntered[g] = lastSent[g]
            \/ (infl[g].st = "running" /\ pend[g] = lastSent[g])
\* steps of one group never touch another group's slot
DisjointIndependent ==
    [][\A g \in Groups : (\E x \in Groups \ {g} : Enter(x) \/ Exit(x) \/ Callback(x) \/ (\E o \in Outcomes : Resolve(x, o)))
                            => (infl'[g] = infl[g] /\ pend'[g] = pend[g])]_vars
\* liveness (FairSpec): every request that was the last one sent for its group at some time is
\* eventually applied or superseded by a later one that is
LastRequestApplied == \A g \in Groups, k \in 1..MaxReq : (lastSent[g] = k) ~> (lastEntered[g] >= k)

=============================================================================
