-------------------------- MODULE MatryoshkaTrace --------------------------
(* Conformance of the real Matryoshka class with Matryoshka.tla.              *)
(*                                                                            *)
(* Input (ndjson, IOEnv.TRACE_FILE): one object per line                      *)
(*   kind "hist": steps = sequence of action records (the history TLC         *)
(*        generated) each extended with  obs = what the real object returned  *)
(*        after that action:  t (target, None = -99), nm (result of a         *)
(*        must_return_power=False recalculation), gt (get_target_power),      *)
(*        st (per actor <<lo, hi>> of get_status().bounds), rt (report target)*)
(*   kind "state": sys, bucket (a state TLC enumerated), orders = sequence    *)
(*        of obs records, one per arrival order through which the harness     *)
(*        installed that bucket in a fresh real object, plus hon[a][x] =      *)
(*        target when actor a prefers grid value x and nobody below states a  *)
(*        preference, and adj[a][x] = adjust_to_bounds(x) of a's report.      *)
(* The spec actions are re-executed on the recorded arguments; every clause   *)
(* of C03 / C04 is evaluated by TLC on the values the CODE produced.  A false *)
(* clause is written to IOEnv.VERDICT_FILE, the trace continues.              *)
EXTENDS Matryoshka, TLCExt

VARIABLES tid, l
tvars == <<vars, tid, l>>

\* TLCEval: parse the file once, not at every use
TraceLog == TLCEval(ndJsonDeserialize(IOEnv.TRACE_FILE))
Tr == TraceLog[tid]

Say(v) == CSVWrite("%1$s", <<ToJson(v)>>, IOEnv.VERDICT_FILE)
Fail(clause, detail) == Say([tid |-> Tr.id, l |-> l, clause |-> clause, detail |-> detail])
\* Check(c, ...) is always TRUE; it reports when the clause is false
Check(ok, clause, detail) == IF ok THEN TRUE ELSE Fail(clause, detail)

SysOf(r) == [has |-> r.has, lo |-> r.lo, hi |-> r.hi, xlo |-> r.xlo, xhi |-> r.xhi]
XIdx(x) == x + G + 1            \* grid value -> index into recorded per-grid sequences

\* clauses on one observation o against spec state <<b, c, s>> (bucket, created, sys)
ObsChecks(o, b, c, s) ==
    LET exp == IF c THEN Target(b, s) ELSE None IN
    /\ Check(o.t = exp, "C03.TargetIsFunctionOfLiveSet", <<"got", o.t, "expected", exp>>)
    /\ Check(o.t = None \/ Usable(o.t, s), "C03.Envelope", <<"target", o.t, "sys", s>>)
    /\ Check(o.nm = None /\ o.gt = o.t /\ o.rt = o.t, "C03.MemoConsistent", <<o.nm, o.gt, o.rt, o.t>>)
    /\ Check(o.t = None \/ ClosestAdmissibleOf(o.t, b, s), "C04.ClosestAdmissible", <<"target", o.t>>)
    /\ Check(o.t = None \/ NoPrefZeroOf(o.t, b), "C04.NoPrefZero", <<"target", o.t>>)
    /\ \A a \in Actors :
         Check(<<o.st[a][1], o.st[a][2]>> = StatusBounds(b, s, Prio[a]), "C04.StatusBounds",
               <<"actor", a, "got", o.st[a], "expected", StatusBounds(b, s, Prio[a])>>)

StateChecks ==
    LET s == SysOf(Tr.sys)
        b == [a \in Actors |-> Tr.bucket[a]]
    IN /\ \A k \in 1..Len(Tr.orders) : ObsChecks(Tr.orders[k], b, TRUE, s)
       /\ Tr.c04 => \A a \in Actors, x \in Grid :
            LET p2 == WithOnlyPref(b, a, x)
                rb == <<Tr.orders[1].st[a][1], Tr.orders[1].st[a][2]>>
                got == Tr.hon[a][XIdx(x)]
                adj == <<Tr.adj[a][XIdx(x)][1], Tr.adj[a][XIdx(x)][2]>>
            IN /\ Check((s.has /\ ConflictFree(p2, s, a) /\ ~ZeroUndetermined(x, s)) => (InReported(x, rb, s) <=> got = x),
                        "C04.ReportedRangeIsHonoured", <<"actor", a, "x", x, "reported", rb, "target", got>>)
               /\ Check((s.has /\ ~ZeroUndetermined(x, s)) => (InReported(x, rb, s) <=> adj = <<x, x>>),
                        "C04.AdjustToBoundsAgrees", <<"actor", a, "x", x, "reported", rb, "adjusted", adj>>)
               /\ Check(adj = AdjustToBounds(x, rb, s), "C04.AdjustToBoundsConform",
                        <<"actor", a, "x", x, "got", adj>>)

TInit ==
    /\ tid \in 1..Len(TraceLog)
    /\ l = 1
    /\ clock = 0 /\ bucket = EmptyBucket /\ created = FALSE /\ memo = None /\ h = <<>>
    /\ sys = IF Tr.kind = "hist" THEN SysOf(Tr.steps[1]) ELSE SysOf(Tr.sys)

Done == Say([tid |-> Tr.id, done |-> TRUE])

HistStep ==
    /\ Tr.kind = "hist" /\ l <= Len(Tr.steps)
    /\ LET r == Tr.steps[l] IN
       /\ IF l = 1 THEN UNCHANGED vars
          ELSE IF r.a = "propose" THEN Propose(r.who, [pref |-> r.pref, lo |-> r.lo, hi |-> r.hi, live |-> TRUE, t |-> 0])
          ELSE IF r.a = "bounds" THEN sys' = SysOf(r) /\ memo' = (IF created THEN Target(bucket, sys') ELSE memo)
                                      /\ UNCHANGED <<bucket, created, clock, h>>
          ELSE IF r.a = "tick" THEN clock' = clock + 1 /\ UNCHANGED <<bucket, created, sys, memo, h>>
          ELSE IF r.a = "drop" THEN
                 /\ bucket' = [a \in Actors |-> IF bucket[a].live /\ clock - bucket[a].t > MaxAge THEN NoProp ELSE bucket[a]]
                 /\ memo' = Target(bucket', sys)
                 /\ UNCHANGED <<created, sys, clock, h>>
          ELSE FALSE
       /\ ObsChecks(r.obs, bucket', created', sys')
    /\ l' = l + 1 /\ UNCHANGED tid
    /\ (l' > Len(Tr.steps)) => Done

StateStep ==
    /\ Tr.kind = "state" /\ l = 1
    /\ StateChecks
    /\ l' = 2 /\ UNCHANGED <<vars, tid>>
    /\ Done

TNext == HistStep \/ StateStep
=============================================================================
