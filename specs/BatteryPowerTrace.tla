------------------------- MODULE BatteryPowerTrace -------------------------
(* Conformance of the real battery power distribution / bounds code with      *)
(* BatteryPower.tla.  Every property clause of C01, C02 and C17 is evaluated   *)
(* by TLC on the numbers the REAL code returned.                               *)
(*                                                                            *)
(* Input (ndjson, IOEnv.TRACE_FILE), one object per line:                      *)
(*  kind "dist":  g, p, e   the input TLC generated (groups, power, exponent)  *)
(*     d, rem     BatteryDistributionAlgorithm(e).distribute_power(p, pairs):  *)
(*                d[g][j] set-point of inverter j of group g, remaining_power  *)
(*     m          the same request driven through BatteryManager.distribute_   *)
(*                power with a fake API client (exponent 1 only; has = FALSE   *)
(*                otherwise): kind (Result class name), adj (adjust_power),    *)
(*                ord (order in which the manager presented the groups),       *)
(*                calls[g][j] (set_power calls), succ, exc (succeeded_power,   *)
(*                excess_power of the Result), md/mrem (distribute_power on    *)
(*                the manager's own pairs)                                     *)
(*  kind "reject": g, p, e  a request the advertised bounds do NOT admit; r =    *)
(*     for adjust_power TRUE and FALSE: [adj, kind, calls] of the manager run    *)
(*  kind "bounds": g, bs (bs[g][k]: status "w"/"u"/"n" of battery k of group g;  *)
(*     one real ComponentPoolStatus(working, uncertain) gives the pool its        *)
(*     working_batteries for calculate() and answers the manager's queries), hp (probe powers in half units, from TLC), adv / enf *)
(*     (<<il, el, eu, iu>> of PowerBoundsCalculator.calculate / BatteryManager *)
(*     ._get_bounds), accA / accN (per probe: _check_request with / without    *)
(*     adjust_power did not answer OutOfBounds), cont (Power in SystemBounds), *)
(*     mpC / mpS (sum of AvailabilityRatio.min_power, consume / supply side)   *)
(* All powers are fixed-point integers (SCd digits) in spec units.             *)
(*                                                                            *)
(* A false clause is written to IOEnv.VERDICT_FILE with the names of the       *)
(* deviations of the transcription that fired on that very input and can       *)
(* explain that clause (detail.causes lists every named cause that fired, also *)
(* the legacy ones of repaired defects); lines whose clause starts with DRIFT   *)
(* report that code and transcription differ, OBS lines report behaviour        *)
(* outside the domain of the properties (neither is a violation).               *)
EXTENDS BatteryPower

VARIABLES tid, l
tvars == <<vars, tid, l>>

TraceLog == ndJsonDeserialize(IOEnv.TRACE_FILE)
Tr == TraceLog[tid]

Say(v) == CSVWrite("%1$s", <<ToJson(v)>>, IOEnv.VERDICT_FILE)
SetToSeq(S) == LET RECURSIVE f(_)
                   f(T) == IF T = {} THEN <<>> ELSE LET x == CHOOSE x \in T : TRUE IN <<x>> \o f(T \ {x})
               IN f(S)
Fail(clause, detail, devs) ==
    Say([tid |-> Tr.id, l |-> l, clause |-> clause, detail |-> detail, deviations |-> SetToSeq(devs)])
Check(ok, clause, detail, devs) == IF ok THEN TRUE ELSE Fail(clause, detail, devs)

PropOf(name) == IF name \in {"Conservation", "SignOfRequest", "RemainderSignAndMagnitude"} THEN "C01." ELSE "C02."
Near(a, b) == Abs(a - b) <= Tol + 1
SameOut(o1, o2) ==
    /\ Near(o1.rem, o2.rem)
    /\ \A g \in 1..Len(o1.d) : \A j \in 1..Len(o1.d[g]) : Near(o1.d[g][j], o2.d[g][j])

InputOf(r) == [groups |-> r.g, power |-> r.p, exp |-> r.e]
Permuted(i, ord) == [i EXCEPT !.groups = [k \in 1..Len(ord) |-> i.groups[ord[k]]]]

\* the model's output for the permuted input, mapped back to the order of the recorded input
Unperm(o, ord) == [o EXCEPT !.d = [g \in 1..Len(ord) |-> o.d[CHOOSE k \in 1..Len(ord) : ord[k] = g]]]

\* all C01 / C02 clauses on one output o of the code for input i; mo = the transcription's output,
\* devs = the deviations that fired in the transcription, for the order in which the code saw the groups
ClauseChecks(i, o, mo, devs, path) ==
    \A c \in 1..Len(DistClauses) :
        LET name == DistClauses[c] IN
        Check(ClauseHolds(name, i, o), PropOf(name) \o name,
              [path |-> path, p |-> i.power, e |-> i.exp, d |-> o.d, rem |-> o.rem,
               model |-> mo, agree |-> SameOut(mo, o), causes |-> SetToSeq(devs)],
              devs \cap Excuses(name))

DistChecks(r) ==
    LET i == InputOf(r)
        o == [d |-> r.d, rem |-> r.rem]
        fin == FinalOf(i)
        mo == OutOf(fin)
    IN /\ ClauseChecks(i, o, mo, DevNames(fin), "algorithm")
       /\ Check(SameOut(mo, o), "DRIFT.Distribution",
                [p |-> i.power, e |-> i.exp, d |-> o.d, rem |-> o.rem, model |-> mo], DevNames(fin))
       /\ r.m.has =>
            LET m == r.m
                om == [d |-> m.calls, rem |-> m.exc]
                same == m.ord = [k \in 1..Len(m.ord) |-> k]
                finm == IF same THEN fin ELSE FinalOf(Permuted(i, m.ord))
                mom == IF same THEN mo ELSE Unperm(OutOf(finm), m.ord)
            IN /\ Check(m.kind # "OutOfBounds", "C17.AdvertisedAccepted",
                        [path |-> "manager", p |-> i.power, adj |-> m.adj, kind |-> m.kind], {})
               /\ m.kind = "Success" =>
                    /\ ClauseChecks(i, om, mom, DevNames(finm), "manager")
                    \* the power reported as set is the power commanded, and result + excess = request
                    /\ Check(Near(m.succ, AllTotal(om)), "C01.Conservation",
                             [path |-> "manager.succeeded_power", p |-> i.power, succ |-> m.succ, calls |-> m.calls],
                             DevNames(finm) \cap Excuses("Conservation"))
                    /\ Check(Near(m.succ + m.exc, i.power * SC) /\ m.calls = m.md /\ m.exc = m.mrem,
                             "C01.ResultAccountsRequest",
                             [p |-> i.power, succ |-> m.succ, exc |-> m.exc, calls |-> m.calls, md |-> m.md], {})
               /\ Check(m.kind \in {"Success", "OutOfBounds"}, "C01.ResultAccountsRequest",
                        [path |-> "manager", p |-> i.power, kind |-> m.kind], {})

\* ---- requests that are not advertised, through the manager (C02: the admission check is what keeps
\* set-points out of the exclusion zones; a rejection makes no set_power call and satisfies the clauses).
\* Beyond the inclusion bounds with adjust_power the request is an admitted one (covered by the
\* "dist" records); requests in the gap between the enforced and the advertised exclusion bound are
\* outside the domain of C02 and only reported (OBS line).
RejectChecks(r) ==
    LET i == InputOf(r)
        a == Advertised(i.groups)
        E == Enforced(i.groups)
    IN \A k \in 1..Len(r.r) :
        LET m == r.r[k]
            o == [d |-> m.calls, rem |-> 0]
            ok == PerInverterInBounds(i, o) /\ GroupInBounds(i, o)
            det == [path |-> "manager.not_advertised", p |-> i.power, adj |-> m.adj, kind |-> m.kind, calls |-> m.calls]
        IN /\ Check((m.kind = "OutOfBounds") = ~Accepts(2 * i.power, E, m.adj), "DRIFT.CheckRequest", det, {})
           /\ Check(m.kind \in {"Success", "OutOfBounds"}, "DRIFT.ResultKind", det, {})
           /\ IF InGap(i.power, i.groups)
              THEN Check(ok, "OBS.GapRequestCommandedInsideExclusion", det, {})
              ELSE (InsideAdvZone(i.power, a) \/ ~m.adj) =>
                     /\ Check(PerInverterInBounds(i, o), "C02.PerInverterInBounds", det, {})
                     /\ Check(GroupInBounds(i, o), "C02.GroupInBounds", det, {})

\* ---- C17 on recorded bounds
HalfSC == SC \div 2
InAdvFP(hp, a) == (a[1] - Tol <= hp * HalfSC /\ hp * HalfSC <= a[2] + Tol)
                  \/ (a[3] - Tol <= hp * HalfSC /\ hp * HalfSC <= a[4] + Tol)
BndFP(b) == <<b.il * SC, b.el * SC, b.eu * SC, b.iu * SC>>
BoundsChecks(r) ==
    LET gs == EffectiveSt(r.g, r.bs)      \* model side only (DRIFT lines); the clauses use recorded numbers
        A == Advertised(gs)
        E == Enforced(gs)
    IN /\ Check(Near(r.adv[1], r.enf[1]) /\ Near(r.adv[4], r.enf[4]), "C17.InclusionIdentical",
                [adv |-> r.adv, enf |-> r.enf], {})
       /\ \A k \in 1..Len(r.hp) :
            LET hp == r.hp[k] IN
            /\ Check(InAdvFP(hp, r.adv) => (r.accA[k] /\ r.accN[k]), "C17.AdvertisedAccepted",
                     [hp |-> hp, adv |-> r.adv, enf |-> r.enf, accA |-> r.accA[k], accN |-> r.accN[k]], {})
            /\ Check(r.cont[k] => (r.accA[k] /\ r.accN[k]), "C17.AdvertisedAccepted",
                     [path |-> "SystemBounds.__contains__", hp |-> hp, adv |-> r.adv, enf |-> r.enf], {})
            /\ Check(InAdvFP(hp, r.adv) => Abs(hp) * HalfSC >= (IF hp < 0 THEN r.mpS ELSE r.mpC) - Tol,
                     "C17.AtLeastSumMinPower", [hp |-> hp, adv |-> r.adv, mpC |-> r.mpC, mpS |-> r.mpS], {})
            /\ Check(/\ r.accA[k] = Accepts(hp, E, TRUE) /\ r.accN[k] = Accepts(hp, E, FALSE)
                     /\ r.cont[k] = SysContains(hp, A),
                     "DRIFT.CheckRequest", [hp |-> hp, accA |-> r.accA[k], accN |-> r.accN[k], cont |-> r.cont[k]], {})
       /\ Check(<<r.adv[1], r.adv[2], r.adv[3], r.adv[4]>> = BndFP(A), "DRIFT.Advertised", [got |-> r.adv, model |-> BndFP(A)], {})
       /\ Check(<<r.enf[1], r.enf[2], r.enf[3], r.enf[4]>> = BndFP(E), "DRIFT.Enforced", [got |-> r.enf, model |-> BndFP(E)], {})
       /\ Check(r.mpC = SumMinPower(gs, FALSE) * SC /\ r.mpS = SumMinPower(gs, TRUE) * SC, "DRIFT.MinPower",
                [mpC |-> r.mpC, mpS |-> r.mpS], {})

\* which antecedents this record exercised (vacuity report; summed by the harness)
B2N(b) == IF b THEN 1 ELSE 0
ExercisedDist(r) ==
    LET i == InputOf(r)
        a == Advertised(i.groups)
        o == [d |-> r.d, rem |-> r.rem]
    IN [noheadroom |-> B2N(\E g \in 1..Len(i.groups) : NoHeadroom(i.groups[g], i.power)),
        allnoheadroom |-> B2N(\A g \in 1..Len(i.groups) : NoHeadroom(i.groups[g], i.power)),
        nonzero_setpoint |-> B2N(\E g \in 1..Len(o.d) : \E j \in 1..Len(o.d[g]) : Abs(o.d[g][j]) > Tol),
        multi_inverter |-> B2N(\E g \in 1..Len(i.groups) : Len(i.groups[g].invs) > 1),
        multi_battery |-> B2N(\E g \in 1..Len(i.groups) : Len(i.groups[g].bats) > 1),
        zero_headroom_among_three_with_excl |->
            B2N(/\ Len(i.groups) >= 3
                /\ \E g \in 1..Len(i.groups) : NoHeadroom(i.groups[g], i.power) /\ MinPowerOf(Side(i.groups[g], i.power < 0)) > 0
                /\ Cardinality({g \in 1..Len(i.groups) : ~NoHeadroom(i.groups[g], i.power)}) >= 2),
        hetero_group_at_soc_limit |->
            B2N(\E g \in 1..Len(i.groups) :
                  /\ Len(i.groups[g].bats) > 1 /\ NoHeadroom(i.groups[g], i.power)
                  /\ \E x \in 1..Len(i.groups[g].bats), y \in 1..Len(i.groups[g].bats) :
                        /\ i.groups[g].bats[x].cap # i.groups[g].bats[y].cap
                        /\ i.groups[g].bats[x].slo # i.groups[g].bats[y].slo
                        /\ i.groups[g].bats[x].shi # i.groups[g].bats[y].shi),
        third_inverter_powered |-> B2N(\E g \in 1..Len(o.d) : Len(o.d[g]) >= 3 /\ Abs(o.d[g][3]) > Tol),
        at_excl |-> B2N(i.power \in {a.el, a.eu}),
        at_incl |-> B2N(i.power \in {a.il, a.iu}),
        beyond_incl |-> B2N(i.power > a.iu \/ i.power < a.il),
        remainder |-> B2N(Abs(r.rem) > Tol),
        supply |-> B2N(i.power < 0),
        manager |-> B2N(r.m.has),
        manager_reordered |-> B2N(r.m.has /\ r.m.ord # [k \in 1..Len(r.m.ord) |-> k])]
ExercisedReject(r) ==
    LET i == InputOf(r)
        a == Advertised(i.groups)
        E == Enforced(i.groups)
        cmd(m) == \E g \in 1..Len(m.calls) : \E j \in 1..Len(m.calls[g]) : Abs(m.calls[g][j]) > Tol
    IN [not_advertised |-> 1,
        inside_enforced_zone |-> B2N(E.el < i.power /\ i.power < E.eu),
        in_gap |-> B2N(InGap(i.power, i.groups)),
        beyond_incl_noadjust |-> B2N(i.power < a.il \/ i.power > a.iu),
        rejected_runs |-> Cardinality({k \in 1..Len(r.r) : r.r[k].kind = "OutOfBounds"}),
        commanded_runs |-> Cardinality({k \in 1..Len(r.r) : cmd(r.r[k])})]
ExercisedBounds(r) ==
    [probes |-> Len(r.hp),
     partially_working |-> B2N(PartiallyWorking(WorkingOf(r.bs))),
     group_not_working |-> B2N(Len(EffectiveSt(r.g, r.bs)) < Len(r.g)),
     set_working_other_only_uncertain |->
        B2N(\E k \in 1..Len(r.bs), k2 \in 1..Len(r.bs) :
              /\ \E b \in 1..Len(r.bs[k]) : r.bs[k][b] = "w"
              /\ \A b \in 1..Len(r.bs[k2]) : r.bs[k2][b] # "w"
              /\ \E b \in 1..Len(r.bs[k2]) : r.bs[k2][b] = "u"),
     fallback_all_uncertain |-> B2N(\A k \in 1..Len(r.bs) : \A b \in 1..Len(r.bs[k]) : r.bs[k][b] # "w"),
     in_advertised |-> Cardinality({k \in 1..Len(r.hp) : InAdvFP(r.hp[k], r.adv)}),
     contains |-> Cardinality({k \in 1..Len(r.hp) : r.cont[k]}),
     rejected |-> Cardinality({k \in 1..Len(r.hp) : ~r.accN[k]}),
     excl_differs |-> B2N(r.adv[2] # r.enf[2] \/ r.adv[3] # r.enf[3])]

TInit ==
    /\ tid \in 1..Len(TraceLog)
    /\ l = 1
    /\ inp = NoInp /\ pc = "trace" /\ w = NoW

Judge ==
    /\ l = 1
    /\ IF Tr.kind = "dist"
       THEN DistChecks(Tr) /\ Say([tid |-> Tr.id, done |-> TRUE, ex |-> ExercisedDist(Tr)])
       ELSE IF Tr.kind = "reject"
       THEN RejectChecks(Tr) /\ Say([tid |-> Tr.id, done |-> TRUE, ex |-> ExercisedReject(Tr)])
       ELSE BoundsChecks(Tr) /\ Say([tid |-> Tr.id, done |-> TRUE, ex |-> ExercisedBounds(Tr)])
    /\ l' = 2 /\ UNCHANGED <<vars, tid>>

TNext == Judge
=============================================================================
