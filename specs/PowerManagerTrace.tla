------------------------- MODULE PowerManagerTrace -------------------------
(* Conformance of the real PowerManagingActor with PowerManager.tla and       *)
(* evaluation of the C11 clauses on what the actor REALLY sent and reported.  *)
(*                                                                            *)
(* Input (ndjson, IOEnv.TRACE_FILE), one object per line:                     *)
(*   id, steps = the history TLC generated (first element = first bounds),    *)
(*   every step extended with  obs = what the real actor did when the         *)
(*   harness injected that event and ran the loop to quiescence:              *)
(*     req   sequence of the powers of the Request objects that arrived on    *)
(*           the power-distributing requests channel                          *)
(*     nr,no number of _Report objects the regular / operating-point          *)
(*           subscribers received in this step                                *)
(*     rr,ro target_power of the LATEST report each group has received so far *)
(*           (None = -99: no report yet, or a report without a target)        *)
(*     rb,ob per actor <<lo, hi>> of the latest report's bounds               *)
(*     older,ans,lat  (result steps) the injected Result carried a Request    *)
(*           object older than the latest one; its power; the latest's power  *)
(* The spec action is re-executed on the recorded arguments.  Clauses:        *)
(*   C11.SentIsSum / C11.SentInBounds  on the code's values only.  The        *)
(*       verdict line's `deviations` names the deviation of PowerManager.tla  *)
(*       (the design before /repo 52a89e3) if, for this very step, the OLD    *)
(*       design's cause predicate holds and the code sent and reported        *)
(*       exactly what the OLD design's transcription does.                    *)
(*   DIS.*  code differs from the transcription (not a property clause)       *)
(*   OBS.*  informational                                                     *)
EXTENDS PowerManager

VARIABLES tid, l, lastReq
tvars == <<vars, tid, l, lastReq>>

TraceLog == ndJsonDeserialize(IOEnv.TRACE_FILE)
Tr == TraceLog[tid]

Say(v) == CSVWrite("%1$s", <<ToJson(v)>>, IOEnv.VERDICT_FILE)
Check(ok, clause, detail) ==
    IF ok THEN TRUE ELSE Say([tid |-> Tr.id, l |-> l, clause |-> clause, detail |-> detail, deviations |-> <<>>])
CheckD(ok, clause, detail, devs) ==
    IF ok THEN TRUE ELSE Say([tid |-> Tr.id, l |-> l, clause |-> clause, detail |-> detail, deviations |-> devs])

SysOf(r) == [has |-> r.has, lo |-> r.lo, hi |-> r.hi, xlo |-> r.xlo, xhi |-> r.xhi]
QOf(r) == [who |-> r.who, pref |-> r.pref, lo |-> r.lo, hi |-> r.hi]

\* the step r is a bounds update on which the design BEFORE the repair drops the unchanged group's
\* target (evaluated on the spec state before the step), and the code did exactly that
OldDesignDeviation(r) ==
    /\ r.a = "bounds"
    /\ LET x == CalcTarget("none", NoQ, SysOf(r), FALSE, FALSE)
           sentOld == Combine(x, FALSE)
       IN /\ DevUnchangedOf([kind |-> "none", must |-> FALSE, r |-> x.r, o |-> x.o], x.R.m, x.O.m)
          /\ r.obs.req = (IF sentOld = None THEN <<>> ELSE <<sentOld>>)
          /\ r.obs.rr = x.R.m /\ r.obs.ro = x.O.m

\* evaluated in the step: primed variables = spec state after the re-executed action
ObsChecks(o, a, olddev) ==
    LET expSent == IF last'.sent = None THEN <<>> ELSE <<last'.sent>>
        devs == IF olddev THEN <<"Dev_UnchangedGroupDroppedOnBoundsUpdate">> ELSE <<>>
        reports == a # "tick"
    IN /\ \A i \in 1..Len(o.req) :
            /\ CheckD(SentIsSumOf(o.req[i], o.rr, o.ro), "C11.SentIsSum",
                      <<"sent", o.req[i], "reported regular", o.rr, "reported operating point", o.ro,
                        "branch", last'.kind, "no_shift", last'.r, "shift", last'.o>>, devs)
            /\ Check(SentInBoundsOf(o.req[i], sys'), "C11.SentInBounds",
                     <<"sent", o.req[i], "bounds", sys'.lo, sys'.hi>>)
       /\ Check(o.req = expSent, "DIS.Sent", <<"code", o.req, "transcription", expSent>>)
       /\ Check(reports => (o.nr > 0 /\ o.no > 0), "DIS.ReportsSent", <<o.nr, o.no>>)
       /\ Check(~reports => (o.nr = 0 /\ o.no = 0), "DIS.NoReportsOnTick", <<o.nr, o.no>>)
       /\ Check(o.rr = rep'.r /\ o.ro = rep'.o, "DIS.ReportedTargets",
                <<"code", o.rr, o.ro, "transcription", rep'.r, rep'.o>>)
       /\ reports =>
            \A k \in Actors :
               LET eb == StatusBounds(R'.b, Shifted(sys', O'.m), Prio[k])
                   eo == StatusBounds(O'.b, sys', Prio[k])
               IN /\ Check(<<o.rb[k][1], o.rb[k][2]>> = eb, "DIS.RegularBoundsShifted",
                           <<"actor", k, "code", o.rb[k], "transcription", eb>>)
                  /\ Check(<<o.ob[k][1], o.ob[k][2]>> = eo, "DIS.OperatingPointBounds",
                           <<"actor", k, "code", o.ob[k], "transcription", eo>>)
       \* informational (vacuity guard of the repaired branch): a bounds update changed one group's
       \* target only and the other group's current target had to be substituted
       /\ Check(~DevUnchangedOf(last', R'.m, O'.m), "OBS.UnchangedGroupSubstituted",
                <<"no_shift", last'.r, "shift", last'.o, "sent", o.req>>)
       \* informational (vacuity guard): the first PartialFailure of a run answered a request OLDER than
       \* the latest one (ans = power of the answered Request object, lat = power of the latest request)
       /\ Check(~(a = "result" /\ last'.kind = "none" /\ last'.must /\ o.older),
                "OBS.LatePartialFailure", <<"answered", o.ans, "latest", o.lat>>)
       /\ Check(~(a = "result" /\ last'.kind = "none" /\ last'.must /\ o.older /\ o.ans # o.lat),
                "OBS.LatePartialFailureOtherPower", <<"answered", o.ans, "latest", o.lat, "sent", o.req>>)
       \* informational: nothing was sent although the request in force lies outside the new bounds
       /\ Check(~(a = "bounds" /\ o.req = <<>> /\ lastReq # None /\ ~SentInBoundsOf(lastReq, sys')),
                "OBS.RequestInForceOutsideNewBounds", <<"in force", lastReq, "bounds", sys'.lo, sys'.hi>>)
       \* informational: the two reported targets add up to a value outside the bounds
       /\ Check(~(reports /\ sys'.has /\ o.rr # None /\ o.ro # None
                   /\ ~SentInBoundsOf(o.rr + o.ro, sys')),
                "OBS.ReportedSumOutsideBounds", <<"reported", o.rr, o.ro, "bounds", sys'.lo, sys'.hi>>)

TInit ==
    /\ tid \in 1..Len(TraceLog)
    /\ l = 1 /\ lastReq = None
    /\ R = EmptyGroup /\ O = EmptyGroup
    /\ sys = NoSysRec                 \* _add_system_bounds_tracker: no bounds yet
    /\ clock = 0 /\ lastPartial = FALSE
    /\ last = [Idle EXCEPT !.kind = "none"]
    /\ rep = [r |-> None, o |-> None]
    /\ reqs = <<>>
    /\ h = <<>>

Done == Say([tid |-> Tr.id, done |-> TRUE])

HistStep ==
    /\ l <= Len(Tr.steps)
    /\ LET r == Tr.steps[l] IN
       /\ IF r.a = "bounds" THEN BoundsUpdate(SysOf(r))
          ELSE IF r.a = "reg" THEN RegProposal(QOf(r))
          ELSE IF r.a = "op" THEN OpProposal(QOf(r))
          ELSE IF r.a = "result" THEN Result(r.k, r.back)
          ELSE IF r.a = "tick" THEN Tick
          ELSE FALSE
       /\ ObsChecks(r.obs, r.a, OldDesignDeviation(r))
       /\ lastReq' = IF r.obs.req = <<>> THEN lastReq ELSE r.obs.req[Len(r.obs.req)]
    /\ l' = l + 1 /\ UNCHANGED tid
    /\ (l' > Len(Tr.steps)) => Done

TNext == HistStep
=============================================================================
