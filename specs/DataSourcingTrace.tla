------------------------- MODULE DataSourcingTrace -------------------------
(* Validates executions recorded from the real DataSourcingActor (fake API    *)
(* client with one Broadcast data stream per component, loop pumped one       *)
(* iteration at a time) against DataSourcing.tla.                             *)
(*                                                                            *)
(* One trace per ndjson line:  [id, cfg, lines], lines = sequence of          *)
(*   [ev |-> "msg", c, id, ts, vals]   the harness put message id of component*)
(*        c on the API stream; ts = its timestamp (s after the epoch),        *)
(*        vals[m] = the value it carries for metric m                         *)
(*   [ev |-> "req", c, ns, m, st]      a ComponentMetricRequest was sent      *)
(*        (st: 0 = start_time None, 1 = the harness' fixed datetime)          *)
(*   [ev |-> "fail"]                   the fake API was told to let the next  *)
(*        components() call raise (extension: transient API failure)          *)
(*   [ev |-> "iter", obs, gen, nent, ugen, unent, idle]  one loop iteration;  *)
(*        obs in order:                                                       *)
(*        [k |-> "take", c, ns, m, st] the actor took that request            *)
(*        [k |-> "listfail"]           components() raised: add_metric raises,*)
(*             the actor's _run ends and is restarted after RESTART_DELAY     *)
(*             (the harness moves the virtual clock when the loop is idle)    *)
(*        [k |-> "newrecv", c]         the source asked the API for a receiver*)
(*        [k |-> "cons", c, id, ts]    a handler took message id from it      *)
(*        [k |-> "dlv", c, ns, m, st, ts, val]  a sample arrived on the registry*)
(*             channel of that request (receivers drained after the iteration)*)
(*        gen[c] changes when comp_data_tasks[c] is another task object,      *)
(*        nent[c] = number of request entries held for c (-1: unavailable),   *)
(*        ugen / unent = tasks / entries held for ids the API does not know   *)
(*   [ev |-> "final", alive]           loop idle and no timer left within the *)
(*        harness' horizon of virtual time (restart delays have elapsed)      *)
(* (a) clause checks that are pure functions of the recorded events           *)
(* (b) existential validation: some interleaving of the specification's       *)
(*     actions explains every iteration, its invariants hold in every state,  *)
(*     and at the end nothing is left undone.  (How many iterations a step     *)
(*     takes is not constrained: C20 is about what is delivered, not when.)   *)
EXTENDS DataSourcing, SequencesExt

VARIABLES tid, l, oi, ep0
tvars == <<vars, tid, l, oi, ep0>>

TraceLog == ndJsonDeserialize(IOEnv.TRACE_FILE)
Tr == TraceLog[tid]
Line == Tr.lines[l]
NL == Len(Tr.lines)

Say(v) == CSVWrite("%1$s", <<ToJson(v)>>, IOEnv.VERDICT_FILE)
Check(ok, clause, detail) == IF ok THEN TRUE ELSE Say([tid |-> Tr.id, l |-> 0, clause |-> clause, detail |-> detail])

----------------------------------------------------------------------------
(* (a) observation-only clauses *)
Ev(k, c, ns, m, st, id, ts, val, aux) == [k |-> k, c |-> c, ns |-> ns, m |-> m, st |-> st, id |-> id, ts |-> ts, val |-> val, aux |-> aux]
B(b) == IF b THEN 1 ELSE 0
LineEvents(x) ==
    IF x.ev = "msg" THEN <<Ev("msg", x.c, 0, 0, 0, x.id, x.ts, 0, x.vals)>>
    ELSE IF x.ev = "req" THEN <<Ev("req", x.c, x.ns, x.m, x.st, 0, 0, 0, <<>>)>>
    ELSE IF x.ev = "fail" THEN <<Ev("fail", 0, 0, 0, 0, 0, 0, 0, <<>>)>>
    ELSE IF x.ev = "iter" THEN
        [j \in 1..Len(x.obs) |-> Ev(x.obs[j].k, x.obs[j].c, x.obs[j].ns, x.obs[j].m, x.obs[j].st, x.obs[j].id, x.obs[j].ts, x.obs[j].val, <<>>)]
        \o <<Ev("end", 0, 0, 0, 0, B(x.idle), 0, 0, <<x.gen, x.nent, <<x.ugen, x.unent>>>>)>>
    ELSE <<Ev("final", 0, 0, 0, 0, B(x.alive), 0, 0, <<>>)>>
RECURSIVE FlatFrom(_)
FlatFrom(k) == IF k > NL THEN <<>> ELSE LineEvents(Tr.lines[k]) \o FlatFrom(k + 1)

KeyE(e) == [c |-> e.c, ns |-> e.ns, m |-> e.m, st |-> e.st]
NoDup(s) == \A i, j \in 1..Len(s) : i # j => s[i] # s[j]
CompIdx(c) == c          \* components are 1..NC: position in the recorded per-component arrays

ObsChecks ==
    LET F == FlatFrom(1)
        N == Len(F)
        IdOfTs(c, ts) == LET S == {i \in 1..N : F[i].k = "msg" /\ F[i].c = c /\ F[i].ts = ts}
                         IN IF S = {} THEN 0 ELSE F[CHOOSE i \in S : TRUE].id
        ConsSeq(c, i) == LET S == SelectSeq(SubSeq(F, 1, i - 1), LAMBDA e : e.k = "cons" /\ e.c = c)
                         IN [j \in 1..Len(S) |-> S[j].id]
        DlvSeq(k, i) == LET S == SelectSeq(SubSeq(F, 1, i - 1), LAMBDA e : e.k = "dlv" /\ KeyE(e) = k)
                        IN [j \in 1..Len(S) |-> IdOfTs(k.c, S[j].ts)]
        MsgSeq(c, i) == LET S == SelectSeq(SubSeq(F, i, N), LAMBDA e : e.k = "msg" /\ e.c = c)
                        IN [j \in 1..Len(S) |-> S[j].id]
        FirstIdx(P(_)) == LET S == {i \in 1..N : P(F[i])} IN IF S = {} THEN 0 ELSE CHOOSE i \in S : \A j \in S : i <= j
        Takes == {i \in 1..N : F[i].k = "take"}
        \* the request in hand when components() raised was dropped by the crash: not a subscription
        Lost(i) == \E j \in 1..N : F[j].k = "listfail" /\ i < j /\ \A x \in Takes : x < j => x <= i
        TakeIdx(k) == LET S == {i \in Takes : KeyE(F[i]) = k /\ ~Lost(i)}
                      IN IF S = {} THEN 0 ELSE CHOOSE i \in S : \A j \in S : i <= j
        InstPos(k) == Len(ConsSeq(k.c, TakeIdx(k))) + 1
        IsDup(i) == ~Lost(i) /\ TakeIdx(KeyE(F[i])) < i
        Ends == {i \in 1..N : F[i].k = "end"}
        PrevEnd(j) == LET S == {i \in Ends : i < j} IN IF S = {} THEN 0 ELSE CHOOSE i \in S : \A x \in S : x <= i
        GenAt(j, c) == IF j = 0 THEN 0 ELSE F[j].aux[1][CompIdx(c)]
        NentAt(j, c) == IF j = 0 THEN 0 ELSE F[j].aux[2][CompIdx(c)]
        LastEnd == PrevEnd(N + 1)
        \* number of iterations after which comp_data_tasks[c] was another task object
        GenChanges(c) == Cardinality({j \in Ends : GenAt(j, c) # GenAt(PrevEnd(j), c)})
        NewTakes(c) == {i \in Takes : F[i].c = c /\ ~IsDup(i) /\ ~Lost(i)}
        \* one entry per distinct request, at most one task per distinct request
        Frugal(c) == /\ (LastEnd # 0 /\ NentAt(LastEnd, c) # -1) => NentAt(LastEnd, c) = Cardinality(NewTakes(c))
                     /\ (LastEnd # 0 /\ GenAt(LastEnd, c) # -1) => GenChanges(c) <= Cardinality(NewTakes(c))
    IN
    \* ---- ExactlyOnceInOrder: every stream = the run of consumed messages from (at the latest) the
    \*      first one consumed after the actor took the request; the API receiver is consumed gap-free
    /\ \A k \in Keys :
         LET C == ConsSeq(k.c, N + 1)  D == DlvSeq(k, N + 1)  t == TakeIdx(k) IN
         Check(IF t = 0 THEN D = <<>> ELSE \E s \in 1..InstPos(k) : D = SubSeq(C, s, Len(C)),
               "C20.ExactlyOnceInOrder",
               <<"stream", k, "consumed from API", C, "delivered", D, "first owed index", IF t = 0 THEN 0 ELSE InstPos(k)>>)
    /\ \A c \in Comps :
         LET nr == FirstIdx(LAMBDA e : e.k = "newrecv" /\ e.c = c)
             M == IF nr = 0 THEN <<>> ELSE MsgSeq(c, nr)
         IN Check(ConsSeq(c, N + 1) = M, "C20.ExactlyOnceInOrder",
                  <<"component", c, "messages the API receiver got", M, "consumed", ConsSeq(c, N + 1)>>)
    \* ---- ExistingSubsUndisturbed: across every cancel + recreate each older stream of that
    \*      component still gets everything consumed since its own installation, once, in order
    /\ \A i \in Takes : (F[i].c \in Comps /\ ~IsDup(i) /\ ~Lost(i)) =>
         \A k \in Keys : (k.c = F[i].c /\ TakeIdx(k) # 0 /\ TakeIdx(k) < i) =>
            LET C == ConsSeq(k.c, N + 1)  D == DlvSeq(k, N + 1)
                want == SubSeq(C, InstPos(k), Len(C))
            IN Check(NoDup(D) /\ Len(D) >= Len(want) /\ SubSeq(D, Len(D) - Len(want) + 1, Len(D)) = want,
                     "C20.ExistingSubsUndisturbed",
                     <<"stream", k, "restarted by", KeyE(F[i]), "consumed before restart", ConsSeq(k.c, i),
                       "owed", want, "delivered", D>>)
    \* ---- DuplicateRequestNoEffect
    /\ \A i \in Takes : (F[i].c \in Comps /\ IsDup(i)) =>
         LET k == KeyE(F[i])  C == ConsSeq(k.c, N + 1)  D == DlvSeq(k, N + 1)  nb == Len(ConsSeq(k.c, i)) IN
         Check(\A j \in (nb + 1)..Len(C) : Cardinality({x \in 1..Len(D) : D[x] = C[j]}) = 1,
               "C20.DuplicateRequestNoEffect", <<"stream", k, "consumed after the duplicate", SubSeq(C, nb + 1, Len(C)), "delivered", D>>)
    /\ \A c \in Comps : (\E i \in Takes : F[i].c = c /\ IsDup(i)) =>
         Check(Frugal(c), "C20.DuplicateRequestNoEffect",
               <<"component", c, "distinct requests", Cardinality(NewTakes(c)), "entries held", NentAt(LastEnd, c), "tasks created (seen)", GenChanges(c)>>)
    \* ---- UnknownComponentHarmless
    /\ \A i \in 1..N : F[i].k = "dlv" =>
         Check(F[i].c \in Comps, "C20.UnknownComponentHarmless", <<"sample on the stream of an unknown component", KeyE(F[i]), F[i].ts, F[i].val>>)
    /\ (\E i \in Takes : F[i].c \notin Comps) =>
         /\ \A c \in Comps : (~\E i \in Takes : F[i].c = c /\ IsDup(i)) =>   \* (with duplicates: the clause above)
               Check(Frugal(c), "C20.UnknownComponentHarmless",
               <<"component", c, "distinct requests", Cardinality(NewTakes(c)), "entries held", NentAt(LastEnd, c), "tasks created (seen)", GenChanges(c)>>)
         /\ \A j \in Ends : Check(F[j].aux[3][1] \in {0, -1} /\ F[j].aux[3][2] \in {0, -1}, "C20.UnknownComponentHarmless",
               <<"tasks / entries held for ids the API does not know", F[j].aux[3]>>)
    /\ \A i \in 1..N : (F[i].k = "final" /\ \E x \in Takes : F[x].c \notin Comps) =>
         LET nrq == Cardinality({x \in 1..N : F[x].k = "req"}) IN
         Check(F[i].id = 1 /\ Cardinality(Takes) = nrq,
               "C20.UnknownComponentHarmless", <<"actor alive", F[i].id, "requests sent", nrq, "taken", Cardinality(Takes)>>)
    \* ---- ValueAndTimestamp
    /\ \A i \in 1..N : F[i].k = "dlv" =>
         LET S == {x \in 1..N : F[x].k = "msg" /\ F[x].c = F[i].c /\ F[x].ts = F[i].ts} IN
         Check(S # {} /\ \A x \in S : F[i].m \in 1..Len(F[x].aux) /\ F[x].aux[F[i].m] = F[i].val,
               "C20.ValueAndTimestamp", <<"stream", KeyE(F[i]), "sample ts", F[i].ts, "value", F[i].val,
                                          "message values", IF S = {} THEN <<>> ELSE F[CHOOSE x \in S : TRUE].aux>>)

----------------------------------------------------------------------------
(* (b) existential validation against the specification *)
TInit ==
    /\ tid \in 1..Len(TraceLog)
    /\ l = 1 /\ oi = 0
    /\ Init
    /\ ep0 = epoch
    /\ ObsChecks

Progress == Say([tid |-> Tr.id, at |-> l'])
KeepH == h' = h

\* id of the message of component c stamped ts (0: no such message was ever injected)
IdOfTsT(c, ts) == LET S == {i \in 1..NL : Tr.lines[i].ev = "msg" /\ Tr.lines[i].c = c /\ Tr.lines[i].ts = ts}
                  IN IF S = {} THEN 0 ELSE Tr.lines[CHOOSE i \in S : TRUE].id
PrevGen(c) == LET S == {i \in 1..(l - 1) : Tr.lines[i].ev = "iter"}
              IN IF S = {} THEN 0 ELSE Tr.lines[CHOOSE i \in S : \A j \in S : j <= i].gen[c]

ConsumeMsg ==
    /\ l <= NL /\ Line.ev = "msg"
    /\ Line.c \in Comps /\ ApiMsg(Line.c) /\ nmsg'[Line.c] = Line.id /\ KeepH
    /\ l' = l + 1 /\ oi' = 0 /\ UNCHANGED <<tid, ep0>> /\ Progress

ConsumeFail ==
    /\ l <= NL /\ Line.ev = "fail"
    /\ ApiListFails /\ KeepH
    /\ l' = l + 1 /\ oi' = 0 /\ UNCHANGED <<tid, ep0>> /\ Progress

ConsumeReq ==
    /\ l <= NL /\ Line.ev = "req"
    /\ Request([c |-> Line.c, ns |-> Line.ns, m |-> Line.m, st |-> Line.st]) /\ KeepH
    /\ l' = l + 1 /\ oi' = 0 /\ UNCHANGED <<tid, ep0>> /\ Progress

\* not observable: the actor finishes a request it had to look up in the API; the crashed actor's _run
\* is called again; a restarted handler whose API receiver already exists starts
IterSilent ==
    /\ l <= NL /\ Line.ev = "iter"
    /\ (ActorAdd \/ ActorRestart \/ \E c \in Comps : hasrecv[c] /\ HandlerStart(c)) /\ KeepH
    /\ UNCHANGED <<tid, l, oi, ep0>>

IterObserved ==
    /\ l <= NL /\ Line.ev = "iter" /\ oi < Len(Line.obs)
    /\ LET o == Line.obs[oi + 1] IN
         \/ o.k = "take" /\ reqq # <<>> /\ Head(reqq) = [c |-> o.c, ns |-> o.ns, m |-> o.m, st |-> o.st] /\ (ActorRecv \/ ActorTake)
         \/ o.k = "listfail" /\ ActorCrash
         \/ o.k = "newrecv" /\ o.c \in Comps /\ ~hasrecv[o.c] /\ HandlerStart(o.c)
         \/ o.k = "cons" /\ o.c \in Comps /\ HandlerRecv(o.c) /\ Head(apiq[o.c]) = o.id
         \/ /\ o.k = "dlv" /\ o.c \in Comps /\ o.ns \in Namespaces /\ o.m \in Metrics /\ o.st \in Starts
            /\ LET k == [c |-> o.c, ns |-> o.ns, m |-> o.m, st |-> o.st] IN
                 Send(o.c, k) /\ delivered'[k] = Append(delivered[k], IdOfTsT(o.c, o.ts))
    /\ KeepH
    /\ oi' = oi + 1 /\ UNCHANGED <<tid, l, ep0>>

Matches(x) ==
    \A c \in Comps :
       /\ x.nent[c] # -1 => x.nent[c] = Cardinality(SubsOf(c))
       /\ x.gen[c] # -1 => ((x.gen[c] # PrevGen(c)) <=> (epoch[c] # ep0[c]))

IterEnd ==
    /\ l <= NL /\ Line.ev = "iter" /\ oi = Len(Line.obs)
    /\ Matches(Line)
    /\ ep0' = epoch
    /\ l' = l + 1 /\ oi' = 0 /\ UNCHANGED <<vars, tid>> /\ Progress

ConsumeFinal ==
    /\ l <= NL /\ Line.ev = "final"
    /\ Quiescent
    /\ l' = l + 1 /\ oi' = 0 /\ UNCHANGED <<vars, tid, ep0>> /\ Progress
    /\ (l' > NL) => Say([tid |-> Tr.id, done |-> TRUE])

TNext == ConsumeMsg \/ ConsumeFail \/ ConsumeReq \/ IterSilent \/ IterObserved \/ IterEnd \/ ConsumeFinal

\* the specification's own invariants are evaluated in every state of every matching behaviour
TraceInv == TypeOK /\ ExactlyOnceInOrder /\ NoApiMessageLost /\ QuiescentAllDelivered
=============================================================================
