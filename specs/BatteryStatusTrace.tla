------------------------ MODULE BatteryStatusTrace ------------------------
(* Validates executions recorded from the REAL BatteryStatusTracker (and the  *)
(* real ComponentPoolStatusTracker / ComponentPoolStatus with two batteries)  *)
(* driven on the virtual clock, against BatteryStatus.tla.                    *)
(*                                                                            *)
(* One trace per ndjson line: [id, lines]; every line is one harness step:    *)
(*   ev    "tick" (clock +1 s; run = the loop was run to idle afterwards, so  *)
(*                 due timers fired; run = FALSE: clock moved, nothing ran)   *)
(*         "bat" / "inv" (message of `kind` for battery b injected after k    *)
(*                 loop iterations, k = -1: the loop was idle; then run to    *)
(*                 idle)                                                      *)
(*         "res"  (one SetPowerResult, f[b] in ok | fail | none; run to idle) *)
(*   idle  the loop was idle after the step (a quiescent point)               *)
(*   sent  per battery: the statuses the real tracker put on its status       *)
(*         channel during the step, in order ("NW" | "UN" | "WK")             *)
(*   proj  per battery: projection of the documented private state            *)
(*         [bok, iok, until, dur] (-1 = unavailable; until -99 = None)        *)
(*   haspool, pw, pu, gw   pool aggregate: working / uncertain sets of the    *)
(*         last ComponentPoolStatus on the pool channel and, for every        *)
(*         non-empty subset s, r = get_working_components(s)                  *)
(*                                                                            *)
(* (a) ObsChecks: every C16 clause evaluated on the statuses the code sent,   *)
(*     against ground truth folded from the injected events only.             *)
(* (b) existential validation: some interleaving of the spec's timer actions  *)
(*     explains each step (sent statuses and projection equal).               *)
EXTENDS BatteryStatus, SequencesExt

VARIABLES tid, l, ph, mark
tvars == <<vars, tid, l, ph, mark>>

TraceLog == ndJsonDeserialize(IOEnv.TRACE_FILE)
Tr == TraceLog[tid]
NL == Len(Tr.lines)
Line == Tr.lines[l]

Say(v) == CSVWrite("%1$s", <<ToJson(v)>>, IOEnv.VERDICT_FILE)
Report(ok, clause, i, devs, detail) ==
    IF ok THEN TRUE ELSE Say([tid |-> Tr.id, l |-> i, clause |-> clause, deviations |-> devs, detail |-> detail])

----------------------------------------------------------------------------
(* (a) ground truth folded from the injected events; statuses from the code *)
NoM == [q |-> FALSE, c |-> FALSE, lag |-> 0, arr |-> None]
G0 == [t |-> 0,
       bm |-> [b \in Bats |-> NoM], im |-> [b \in Bats |-> NoM],
       real |-> [b \in Bats |-> "NW"],
       k |-> [b \in Bats |-> [act |-> FALSE, n |-> 0, t0 |-> 0, rs |-> "init"]],   \* rs: why the count was last reset
       hq |-> [b \in Bats |-> FALSE]]

GMsg(kind, t) == [q |-> Qualifies(kind), c |-> ContentOk(kind), lag |-> Lag(kind), arr |-> t]
P(s, t) == s.arr # None /\ s.q /\ t - s.arr < MaxAge
\* cause predicate of the named deviation Dev_EdgeAgeAccepted (repaired in /repo d120239), from the injected
\* events only: failing records of the two freshness clauses carry its name when it explains them
D(s, t) == s.arr # None /\ s.c /\ s.lag = MaxAge /\ t - s.arr < MaxAge
Until(kk) == kk.t0 + BackoffDur(kk.n)
BlockedAt(kk, t) == kk.act /\ Until(kk) > t
LastOr(sq, d) == IF Len(sq) = 0 THEN d ELSE sq[Len(sq)]

StepG(g, x) ==
    LET t1 == g.t + (IF x.ev = "tick" THEN 1 ELSE 0)
        bm1 == [b \in Bats |-> IF x.ev = "bat" /\ x.b = b THEN GMsg(x.kind, t1) ELSE g.bm[b]]
        im1 == [b \in Bats |-> IF x.ev = "inv" /\ x.b = b THEN GMsg(x.kind, t1) ELSE g.im[b]]
        real1 == [b \in Bats |-> LastOr(x.sent[b], g.real[b])]
        Recov(b) == \E j \in 1..Len(x.sent[b]) :
                       x.sent[b][j] = "WK" /\ (IF j = 1 THEN g.real[b] ELSE x.sent[b][j - 1]) = "NW"
        AfterRes(b) ==
            LET f == IF x.ev = "res" THEN x.f[b] ELSE "none"  kk == g.k[b] IN
            \* "resets on success": EVERY success resets the count, whether it arrives during the block
            \* ("okBlocked"), after it expired (status still UNCERTAIN "okExpiredUN" / WORKING again "okExpiredWK")
            \* or with no block at all ("okIdle")
            IF f = "ok" THEN [kk EXCEPT !.act = FALSE, !.n = 0,
                                        !.rs = IF ~kk.act THEN (IF kk.rs = "init" THEN "init" ELSE "okIdle")
                                               ELSE IF BlockedAt(kk, t1) THEN "okBlocked"
                                               ELSE IF g.real[b] = "WK" THEN "okExpiredWK" ELSE "okExpiredUN"]
            ELSE IF f = "fail" /\ g.real[b] # "NW" /\ ~BlockedAt(kk, t1)
                 THEN [act |-> TRUE, n |-> IF kk.act THEN Min2(kk.n + 1, NfCap) ELSE 1, t0 |-> t1, rs |-> "none"]
                 ELSE kk
        k1 == [b \in Bats |-> IF Recov(b) THEN [AfterRes(b) EXCEPT !.act = FALSE, !.n = 0, !.rs = "recovery"] ELSE AfterRes(b)]
        hq1 == [b \in Bats |-> IF x.idle THEN P(bm1[b], t1) /\ P(im1[b], t1) ELSE g.hq[b]]
    IN [t |-> t1, bm |-> bm1, im |-> im1, real |-> real1, k |-> k1, hq |-> hq1]

\* G[1..i]: ground truth after each line (FoldLeft is evaluated iteratively: long traces do not nest)
GroundFold(n) ==
    FoldLeft(LAMBDA acc, x : Append(acc, StepG(IF Len(acc) = 0 THEN G0 ELSE acc[Len(acc)], x)),
             <<>>, SubSeq(Tr.lines, 1, n))

EventFor(x, b) == (x.ev \in {"bat", "inv"} /\ x.b = b) \/ x.ev = "res"

LineChecks(i, g0, g1, x) ==
    \A b \in Bats :
      LET t == g1.t
          r == g1.real[b]
          strict == P(g1.bm[b], t) /\ P(g1.im[b], t)
          withdev == (P(g1.bm[b], t) \/ D(g1.bm[b], t)) /\ (P(g1.im[b], t) \/ D(g1.im[b], t))
          devs == IF withdev THEN <<"Dev_EdgeAgeAccepted">> ELSE <<>>
          kk == g1.k[b]
          chain == <<g0.real[b]>> \o x.sent[b]
          what == <<"battery", b, "t", t, "status", r, "bat", g1.bm[b], "inv", g1.im[b]>>
      IN
      /\ x.idle =>
           /\ Report(r \in {"WK", "UN"} => strict, "C16.WorkingImpliesHealthyAndFresh", i, devs, what)
           /\ Report((g0.hq[b] /\ ~strict) => r = "NW", "C16.NotWorkingWhenDisqualified", i, devs, what)
           /\ Report((r # "NW" /\ BlockedAt(kk, t)) => r = "UN", "C16.BackoffDoubles", i, <<>>,
                     <<"blocked but not UNCERTAIN", "battery", b, "t", t, "status", r, "block", kk, "until", Until(kk)>>)
           /\ Report(r = "UN" => kk.act, "C16.BackoffDoubles", i, <<>>,
                     <<"UNCERTAIN without a block", "battery", b, "t", t, "block", kk>>)
           /\ Report((EventFor(x, b) /\ r # "NW") => (r = "UN" <=> BlockedAt(kk, t)), "C16.BackoffDoubles", i, <<>>,
                     <<"status after an event vs block", "battery", b, "t", t, "status", r, "block", kk, "until", Until(kk)>>)
           \* while a block is in force the tracker's blocked_until (when the projection exists) is its end
           /\ Report((x.proj[b].until # -1 /\ BlockedAt(kk, t)) => x.proj[b].until = Until(kk),
                     "C16.BackoffDoubles", i, <<>>,
                     <<"blocked_until while blocked", "battery", b, "t", t, "got", x.proj[b].until,
                       "block", kk, "expected", Until(kk)>>)
           \* extension (never a violation): lagged-but-not-stale data, age by TIMESTAMP
           /\ Report(r \in {"WK", "UN"} =>
                        \A s \in {g1.bm[b], g1.im[b]} : (s.arr # None /\ s.lag > 0 /\ s.lag < MaxAge) => t - (s.arr - s.lag) < MaxAge,
                     "EXT.FreshByTimestamp", i, <<>>, what)
      /\ Report(\A j \in 1..(Len(chain) - 1) : chain[j] # chain[j + 1], "C16.NotifyOnlyOnChange", i, <<>>,
                <<"battery", b, "previous", g0.real[b], "sent", x.sent[b]>>)

PoolChecks(i, g1, x) ==
    (x.haspool /\ x.idle) =>
      LET W == {b \in Bats : g1.real[b] = "WK"}
          U == {b \in Bats : g1.real[b] = "UN"}
      IN /\ Report(ToSet(x.pw) = W /\ ToSet(x.pu) = U, "C16.UncertainOnlyAsFallback", i, <<>>,
                   <<"pool status vs tracker statuses", "working", x.pw, "uncertain", x.pu, "statuses", g1.real>>)
         /\ \A j \in 1..Len(x.gw) :
              LET S == ToSet(x.gw[j].s)  R == ToSet(x.gw[j].r) IN
              Report(R = (IF W \cap S # {} THEN W \cap S ELSE U \cap S), "C16.UncertainOnlyAsFallback", i, <<>>,
                     <<"get_working_components", x.gw[j].s, "returned", x.gw[j].r, "statuses", g1.real>>)

ObsChecks ==
    LET GS == GroundFold(NL) IN
    \A i \in 1..NL :
       LET g0 == IF i = 1 THEN G0 ELSE GS[i - 1] IN
       LineChecks(i, g0, GS[i], Tr.lines[i]) /\ PoolChecks(i, GS[i], Tr.lines[i])

\* how often each clause's antecedent was exercised in this trace (vacuity guard, counted by TLC)
Stats ==
    LET GS == GroundFold(NL)
        Q == {i \in 1..NL : Tr.lines[i].idle}
        Pre(i) == IF i = 1 THEN G0 ELSE GS[i - 1]
        N(S) == Cardinality(S)
    IN [reportedUsable |-> N({<<i, b>> \in Q \X Bats : GS[i].real[b] \in {"WK", "UN"}}),
        disqualifiedEdges |-> N({<<i, b>> \in Q \X Bats : Pre(i).hq[b] /\ ~(P(GS[i].bm[b], GS[i].t) /\ P(GS[i].im[b], GS[i].t))}),
        silenceEdges |-> N({<<i, b>> \in Q \X Bats : Pre(i).hq[b] /\ Tr.lines[i].ev = "tick"
                                                  /\ ~(P(GS[i].bm[b], GS[i].t) /\ P(GS[i].im[b], GS[i].t))}),
        notifications |-> N({<<i, b, j>> \in (1..NL) \X Bats \X (1..4) : j <= Len(Tr.lines[i].sent[b])}),
        blockedPoints |-> N({<<i, b>> \in Q \X Bats : GS[i].real[b] # "NW" /\ BlockedAt(GS[i].k[b], GS[i].t)}),
        unblockedAfterBlock |-> N({<<i, b>> \in Q \X Bats : EventFor(Tr.lines[i], b) /\ GS[i].real[b] = "WK"
                                                           /\ GS[i].k[b].act /\ ~BlockedAt(GS[i].k[b], GS[i].t)}),
        maxConsecutive |-> LET S == {GS[i].k[b].n : i \in 1..NL, b \in Bats} \cup {0} IN CHOOSE m \in S : \A z \in S : z <= m,
        resets |-> N({<<i, b>> \in (1..NL) \X Bats : Pre(i).k[b].act /\ ~GS[i].k[b].act}),
        \* a new block (count 1) that follows a success which arrived while the battery was not blocked
        successUnblockedThenFail |-> N({<<i, b>> \in (1..NL) \X Bats : Pre(i).k[b].rs \in {"okIdle", "okExpiredUN", "okExpiredWK"} /\ GS[i].k[b].rs = "none"}),
        successAfterExpiryThenFail |-> N({<<i, b>> \in (1..NL) \X Bats : Pre(i).k[b].rs = "okExpiredWK" /\ GS[i].k[b].rs = "none"}),
        \* a consecutive failure (no success in between) arriving later than previous expiry + doubled duration
        lateConsecutiveFail |-> N({<<i, b>> \in (1..NL) \X Bats :
                                     /\ Tr.lines[i].ev = "res" /\ Tr.lines[i].f[b] = "fail"
                                     /\ Pre(i).real[b] # "NW" /\ Pre(i).k[b].act
                                     /\ GS[i].t >= Until(Pre(i).k[b]) + BackoffDur(Min2(Pre(i).k[b].n + 1, NfCap))}),
        successWhileBlockedThenFail |-> N({<<i, b>> \in (1..NL) \X Bats : Pre(i).k[b].rs = "okBlocked" /\ GS[i].k[b].rs = "none"}),
        fallbackUsed |-> N({<<i, j>> \in Q \X (1..8) : Tr.lines[i].haspool /\ j <= Len(Tr.lines[i].gw)
                              /\ LET S == ToSet(Tr.lines[i].gw[j].s) IN
                                 {b \in S : GS[i].real[b] = "WK"} = {} /\ {b \in S : GS[i].real[b] = "UN"} # {}}),
        uncertainWithheld |-> N({<<i, j>> \in Q \X (1..8) : Tr.lines[i].haspool /\ j <= Len(Tr.lines[i].gw)
                              /\ LET S == ToSet(Tr.lines[i].gw[j].s) IN
                                 {b \in S : GS[i].real[b] = "WK"} # {} /\ {b \in S : GS[i].real[b] = "UN"} # {}}),
        devEdge |-> N({<<i, b>> \in Q \X Bats : D(GS[i].bm[b], GS[i].t) \/ D(GS[i].im[b], GS[i].t)})]

----------------------------------------------------------------------------
(* (b) existential validation against the specification *)
Lens == [b \in Bats |-> Len(sent[b])]

TInit ==
    /\ tid \in 1..Len(TraceLog)
    /\ l = 1 /\ ph = 0
    /\ Init
    /\ mark = [b \in Bats |-> 0]
    /\ ObsChecks

Progress == Say([tid |-> Tr.id, at |-> l'])
KeepH == h' = h

\* the harness step itself
Event ==
    /\ l <= NL /\ ph = 0
    /\ \/ Line.ev = "tick" /\ Tick
       \/ Line.ev = "bat" /\ \E lt \in BOOLEAN, acc \in Accs(Line.kind) : BatMsg(Line.b, Line.kind, lt, acc)
       \/ Line.ev = "inv" /\ \E lt \in BOOLEAN, acc \in Accs(Line.kind) : InvMsg(Line.b, Line.kind, lt, acc)
       \/ Line.ev = "res" /\ Res([b \in Bats |-> Line.f[b]])
    /\ KeepH
    /\ ph' = 1 /\ UNCHANGED <<tid, l, mark>>

\* timer ticks handled by the tracker while the loop ran (silent: bounded by the due timers)
Ran == Line.ev # "tick" \/ Line.run
Silent ==
    /\ l <= NL /\ Ran
    /\ (ph = 0 => (Line.ev \in {"bat", "inv"} /\ Line.k >= 0))
    /\ \E b \in Bats : BatTimer(b) \/ InvTimer(b) \/ BatLate(b) \/ InvLate(b)
    /\ KeepH
    /\ UNCHANGED <<tid, l, ph, mark>>

Matches(x) ==
    \A b \in Bats :
       /\ SubSeq(sent[b], mark[b] + 1, Len(sent[b])) = x.sent[b]
       /\ x.proj[b].bok # -1 => ((x.proj[b].bok = 1) <=> bat[b].ok)
       /\ x.proj[b].iok # -1 => ((x.proj[b].iok = 1) <=> inv[b].ok)
       /\ x.proj[b].until # -1 => (x.proj[b].until = blk[b].until /\ x.proj[b].dur = blk[b].dur)

LineEnd ==
    /\ l <= NL /\ ph = 1
    /\ Matches(Line)
    /\ Line.idle => Quiescent
    /\ l' = l + 1 /\ ph' = 0 /\ mark' = Lens
    /\ UNCHANGED <<vars, tid>>
    /\ Progress
    /\ (l' > NL) => Say([tid |-> Tr.id, done |-> TRUE, stats |-> Stats])

TNext == Event \/ Silent \/ LineEnd
=============================================================================
