-------------------------- MODULE PowerPathTrace --------------------------
(* X02: executions recorded from the REAL PowerManagingActor and the REAL     *)
(* PowerDistributingActor (real BatteryManager / PVManager behind it),        *)
(* connected by real channels, are                                            *)
(*   (a) judged: every X02 clause is evaluated on the recorded events alone,  *)
(*   (b) validated existentially against the composed specification PowerPath.*)
(*                                                                            *)
(* One execution per ndjson line: [id, kind, lines]; lines, in PROGRAM ORDER  *)
(* (recording endpoints log synchronously), powers of the manager's side as   *)
(* integer W (None = -99), powers of the distributor's side as integer mW:    *)
(*   [ev |-> "comp", lo, hi]            component data injected (harness)     *)
(*   [ev |-> "bounds", has, lo, hi, xlo, xhi]  the manager's bounds tracker   *)
(*                                      CONSUMED this SystemBounds            *)
(*   [ev |-> "prop", kind, who, pref, lo, hi]  the manager CONSUMED a proposal*)
(*   [ev |-> "got", k, p, type, sp, fp, ex]    the manager CONSUMED a Result  *)
(*   [ev |-> "req", k, p, w, foreign]   the manager SENT its k-th Request     *)
(*   [ev |-> "rep", g, who, t, lo, hi]  the manager SENT a report (g = "r"    *)
(*                                      regular / "o" operating point)        *)
(*   [ev |-> "enter", k, p, clo, chi]   distribute_power(request) entered; k  *)
(*                                      = index of that Request object among  *)
(*                                      the sent ones (0: not one of them),   *)
(*                                      clo/chi = bounds in the caches (-1:   *)
(*                                      projection unavailable)               *)
(*   [ev |-> "dist", s, r, p]           battery: DistributionResult returned  *)
(*   [ev |-> "call", c, p]              set_power(inverter c, p) reached the  *)
(*                                      API client                            *)
(*   [ev |-> "reply", c, o]             it returned (ok) / raised (err) / was *)
(*                                      cancelled at the timeout (to)         *)
(*   [ev |-> "res", k, p, type, sp, fp, ex]    the component manager SENT a   *)
(*                                      Result (k, p: its .request)           *)
(*   [ev |-> "exit", k]                 distribute_power returned / raised    *)
(*   [ev |-> "idle"]                    the event loop has nothing to run     *)
(*   [ev |-> "final"]                   actors stopped proposing, every call  *)
(*                                      answered, loop idle                   *)
(*                                                                            *)
(* Clauses of (a), all on recorded values only:                               *)
(*   X02.CommandWithinDistribution        every set_power call happens while  *)
(*        exactly one distribute_power is in progress                         *)
(*   X02.DistributionIsForSentRequest     that distribution was entered with  *)
(*        a Request the manager sent (same object / same power)               *)
(*   X02.SetpointsSumToRequestMinusExcess set-points of one distribution add  *)
(*        up to the request's power minus the excess its Result reports       *)
(*        (deviation Dev_DistributionLostPower: the battery algorithm itself  *)
(*        returned set-points + remaining # request, C01)                     *)
(*   X02.ResultAccountsForRequest         succeeded + failed + excess =       *)
(*        request, failed = set-points of the calls that did not return ok    *)
(*   X02.DistributionReportsResult        exactly one Result per distribution *)
(*   X02.ResultRefersToSentRequest        every Result sent by the component  *)
(*        manager / received by the power manager names a sent Request, and   *)
(*        what is received is what a distribution of that request produced    *)
(*   X02.RequestIsSumOfReportedTargets    Request = regular target + operating*)
(*        point target in the reports that accompany it                       *)
(*   X02.RequestWithinStreamedBounds      Request within the latest bounds    *)
(*        the manager had consumed from the pool when it sent it              *)
(*   X02.RequestInForceWithinLatestBounds at every idle point the latest      *)
(*        Request lies within the latest consumed bounds                      *)
(*   X02.OneAtATime / X02.LatestWins      no distribution is entered while    *)
(*        another runs; entered request ids increase; at idle points the last *)
(*        sent request is applied or waits behind the running one; at the end *)
(*        it has been applied                                                 *)
(*   X02.FinalCommandedEqualsTarget       at the end: last request = last     *)
(*        reported targets, its distribution commanded target - excess, of    *)
(*        which target - excess - failed succeeded                            *)
(* (b) X02.TraceNotExplainedBySpec        no behaviour of PowerPath explains  *)
(*        the recorded lines (reported by the driver from the unconsumed      *)
(*        trace; the manager's handlers are matched against PowerManager.tla, *)
(*        request and reported targets included)                              *)
EXTENDS PowerPath, SequencesExt, TLCExt

VARIABLES tid, l
tvars == <<ppvars, tid, l>>

TraceLog == TLCEval(ndJsonDeserialize(IOEnv.TRACE_FILE))
Tr == TraceLog[tid]
L == Tr.lines
NL == Len(L)
Line == L[l]

Say(v) == CSVWrite("%1$s", <<ToJson(v)>>, IOEnv.VERDICT_FILE)
CheckD(ok, clause, at, detail, devs) ==
    IF ok THEN TRUE ELSE Say([tid |-> Tr.id, l |-> at, clause |-> clause, detail |-> detail, deviations |-> devs])
Check(ok, clause, at, detail) == CheckD(ok, clause, at, detail, <<>>)

----------------------------------------------------------------------------
(* (a) observation-only clauses *)
MaxS(S) == IF S = {} THEN 0 ELSE CHOOSE x \in S : \A y \in S : y <= x
MinS(S) == IF S = {} THEN 0 ELSE CHOOSE x \in S : \A y \in S : x <= y
Before(i, e) == {j \in 1..(i - 1) : L[j].ev = e}
Between(a, b, e) == {j \in (a + 1)..(b - 1) : L[j].ev = e}
LastEv(i, e) == MaxS(Before(i, e))
Running(i) == Cardinality(Before(i, "enter")) - Cardinality(Before(i, "exit"))
\* the line on which request k was sent (before line i); 0: never
ReqLine(k, i) == MaxS({j \in Before(i, "req") : L[j].k = k})
KOf(j) == IF j = 0 THEN 0 ELSE L[j].k
PSum(S) == SumOn([j \in S |-> L[j].p], S)
\* how the API answered the call on line j (looked up before line hi): no reply counts as timeout
ReplyOf(j, hi) == LET S == {m \in Between(j, hi, "reply") : L[m].c = L[j].c}
                  IN IF S = {} THEN "to" ELSE L[MinS(S)].o
\* target carried by the report of group g that accompanies the request on line i: the first
\* report of g after it (the handler reports right after sending), else the latest one before it
TargetAt(i, g) ==
    LET nx == MinS({j \in (i + 1)..NL : L[j].ev = "req"})
        hi == IF nx = 0 THEN NL + 1 ELSE nx
        A == {j \in Between(i, hi, "rep") : L[j].g = g}
        B == {j \in Before(i, "rep") : L[j].g = g}
    IN IF A # {} THEN L[MinS(A)].t ELSE IF B # {} THEN L[MaxS(B)].t ELSE None
LatestTarget(i, g) == LET B == {j \in Before(i, "rep") : L[j].g = g} IN IF B = {} THEN None ELSE L[MaxS(B)].t
Reported(t) == t \in {"Success", "PartialFailure"}
SeqSum(s) == SumTo(s, Len(s))

\* the battery distribution algorithm itself lost power (known C01 defects), and the calls are
\* exactly its set-points: the conservation failure is attributed to it
LostByAlgorithm(e, i) ==
    \E d \in Between(e, i, "dist") :
        /\ ~Near(SeqSum(L[d].s) + L[d].r, L[d].p)
        /\ Near(PSum(Between(e, i, "call")), SeqSum(L[d].s))

ObsChecks ==
    \A i \in 1..NL :
      LET x == L[i] IN
      /\ x.ev = "call" =>
           Check(Running(i) = 1, "X02.CommandWithinDistribution", i, <<"set_power", x.c, x.p, "distributions in progress", Running(i)>>)
      /\ x.ev = "enter" =>
           LET q == ReqLine(x.k, i) IN
           /\ Check(x.k >= 1 /\ q # 0 /\ L[q].p = x.p /\ ~L[q].foreign, "X02.DistributionIsForSentRequest", i,
                    <<"distribute_power entered with request", x.k, x.p, "sent on line", q>>)
           /\ Check(Running(i) = 0, "X02.OneAtATime", i, <<"request", x.k, "in progress", Running(i)>>)
           /\ Check(x.k > KOf(LastEv(i, "enter")), "X02.LatestWins", i, <<"entered", x.k, "after", KOf(LastEv(i, "enter"))>>)
      /\ x.ev = "res" =>
           LET e == LastEv(i, "enter")
               inw == e # 0 /\ Between(e, i, "exit") = {} /\ L[e].k = x.k
               q == ReqLine(x.k, i)
               calls == IF e = 0 THEN {} ELSE Between(e, i, "call")
               failed == {j \in calls : ReplyOf(j, i) # "ok"}
           IN /\ Check(inw /\ x.k >= 1 /\ q # 0 /\ L[q].p = x.p, "X02.ResultRefersToSentRequest", i,
                       <<"Result sent for request", x.k, x.p, "distribution in progress for", KOf(e)>>)
              /\ IF Reported(x.type)
                 THEN /\ CheckD(Near(PSum(calls) + x.ex, x.p), "X02.SetpointsSumToRequestMinusExcess", i,
                                <<"sum of set-points", PSum(calls), "excess", x.ex, "request", x.p>>,
                                IF e # 0 /\ LostByAlgorithm(e, i) THEN <<"Dev_DistributionLostPower">> ELSE <<>>)
                      /\ Check(Near(x.sp + x.fp + x.ex, x.p) /\ Near(x.fp, PSum(failed)), "X02.ResultAccountsForRequest", i,
                               <<"succeeded", x.sp, "failed", x.fp, "excess", x.ex, "request", x.p, "failed set-points", PSum(failed)>>)
                 ELSE Check(calls = {}, "X02.SetpointsSumToRequestMinusExcess", i,
                            <<"set_power was called but the Result is", x.type>>)
      /\ x.ev = "exit" =>
           LET e == LastEv(i, "enter") IN
           Check(e # 0 /\ Cardinality({j \in Between(e, i, "res") : L[j].k = L[e].k}) = 1, "X02.DistributionReportsResult", i,
                 <<"distribution of request", KOf(e), "ended with", IF e = 0 THEN 0 ELSE Cardinality(Between(e, i, "res")), "Results">>)
      /\ x.ev = "got" =>
           LET q == ReqLine(x.k, i) IN
           Check(/\ x.k >= 1 /\ q # 0 /\ L[q].p = x.p
                 /\ \E j \in Before(i, "res") : L[j].k = x.k /\ L[j].type = x.type /\ L[j].sp = x.sp /\ L[j].fp = x.fp /\ L[j].ex = x.ex,
                 "X02.ResultRefersToSentRequest", i, <<"manager received", x.type, "for request", x.k, x.p>>)
      /\ x.ev = "req" =>
           LET tr == TargetAt(i, "r")  to == TargetAt(i, "o")  b == LastEv(i, "bounds") IN
           /\ Check(~x.foreign /\ x.w = Val(tr) + Val(to) /\ x.p = x.w * Unit, "X02.RequestIsSumOfReportedTargets", i,
                    <<"request", x.w, "reported regular", tr, "reported operating point", to>>)
           /\ Check((b # 0 /\ L[b].has) => (L[b].lo * Unit <= x.p /\ x.p <= L[b].hi * Unit), "X02.RequestWithinStreamedBounds", i,
                    <<"request", x.p, "bounds streamed", IF b = 0 THEN <<>> ELSE <<L[b].lo, L[b].hi>>>>)
      /\ x.ev \in {"idle", "final"} =>
           LET b == LastEv(i, "bounds")  q == LastEv(i, "req") IN
           Check((b # 0 /\ q # 0 /\ L[b].has) => (L[b].lo * Unit <= L[q].p /\ L[q].p <= L[b].hi * Unit),
                 "X02.RequestInForceWithinLatestBounds", i,
                 <<"request in force", KOf(q), IF q = 0 THEN 0 ELSE L[q].p, "latest bounds streamed", IF b = 0 THEN <<>> ELSE <<L[b].lo, L[b].hi>>>>)
      /\ x.ev = "idle" =>
           LET ls == KOf(LastEv(i, "req"))  le == KOf(LastEv(i, "enter")) IN
           Check(ls # 0 => (le = ls \/ (Running(i) = 1 /\ le < ls)), "X02.LatestWins", i,
                 <<"idle: last sent", ls, "last entered", le, "in progress", Running(i)>>)
      /\ x.ev = "final" =>
           LET ls == KOf(LastEv(i, "req"))
               e == LastEv(i, "enter")
               r == LastEv(i, "res")
               tgt == (Val(LatestTarget(i, "r")) + Val(LatestTarget(i, "o"))) * Unit
               calls == IF e = 0 \/ r < e THEN {} ELSE Between(e, r, "call")
               oks == {j \in calls : ReplyOf(j, r) = "ok"}
           IN /\ Check(KOf(e) = ls /\ Running(i) = 0, "X02.LatestWins", i,
                       <<"final: last sent", ls, "last entered", KOf(e), "in progress", Running(i)>>)
              /\ IF ls = 0
                 THEN Check(Before(i, "call") = {}, "X02.FinalCommandedEqualsTarget", i, <<"commands without any request">>)
                 ELSE CheckD(/\ r > e /\ e # 0 /\ L[r].k = ls /\ Reported(L[r].type)
                             /\ L[ReqLine(ls, i)].p = tgt
                             /\ Near(PSum(calls) + L[r].ex, tgt)
                             /\ Near(PSum(oks) + L[r].fp + L[r].ex, tgt),
                             "X02.FinalCommandedEqualsTarget", i,
                             <<"last target", tgt, "last request", ls, "commanded", PSum(calls), "of which ok", PSum(oks),
                               "result", IF r = 0 THEN <<>> ELSE <<L[r].k, L[r].type, L[r].sp, L[r].fp, L[r].ex>>>>,
                             IF e # 0 /\ r > e /\ LostByAlgorithm(e, r) THEN <<"Dev_DistributionLostPower">> ELSE <<>>)

----------------------------------------------------------------------------
(* (b) existential validation against PowerPath *)
TInit ==
    /\ tid \in 1..Len(TraceLog)
    /\ l = 1
    /\ L[1].ev = "comp"
    /\ PPInitWith([lo |-> L[1].lo * Unit, hi |-> L[1].hi * Unit])
    /\ ObsChecks

Progress == Say([tid |-> Tr.id, at |-> l'])
At(e) == l <= NL /\ Line.ev = e
Skip(n) == l' = l + n /\ UNCHANGED tid /\ Progress

SysOf(r) == [has |-> r.has, lo |-> r.lo, hi |-> r.hi, xlo |-> r.xlo, xhi |-> r.xhi]
QOf(r) == [who |-> r.who, pref |-> r.pref, lo |-> r.lo, hi |-> r.hi]

\* what a handler of the manager sent before it returned: the req / rep lines that follow
RECURSIVE RunLen(_)
RunLen(i) == IF i > NL THEN 0 ELSE IF L[i].ev \in {"req", "rep"} THEN 1 + RunLen(i + 1) ELSE 0
Outs == SubSeq(L, l + 1, l + RunLen(l + 1))
OutMatch(o) ==
    LET rs == SelectSeq(o, LAMBDA x : x.ev = "req") IN
    /\ [j \in DOMAIN rs |-> rs[j].w] = (IF last'.sent = None THEN <<>> ELSE <<last'.sent>>)
    /\ \A j \in DOMAIN rs : rs[j].k = nsent' /\ ~rs[j].foreign
    /\ \A j \in DOMAIN o : o[j].ev = "rep" => o[j].t = (IF o[j].g = "r" THEN rep'.r ELSE rep'.o)

TProp == /\ At("prop")
         /\ IF Line.kind = "reg" THEN PReg(QOf(Line)) ELSE POp(QOf(Line))
         /\ OutMatch(Outs) /\ Skip(1 + Len(Outs))
TBounds == /\ At("bounds")
           /\ PBounds(SysOf(Line))
           /\ OutMatch(Outs) /\ Skip(1 + Len(Outs))
TGot == /\ At("got") /\ rq # <<>>
        /\ LET r == Head(rq) IN
             /\ r.k = Line.k /\ r.type = Line.type
             /\ Near(r.sp, Line.sp) /\ Near(r.fp, Line.fp) /\ Near(r.ex, Line.ex)
        /\ PGot
        /\ OutMatch(Outs) /\ Skip(1 + Len(Outs))
\* the component data in the caches is what the distribution entered with
SeenComps == {[lo |-> L[j].lo * Unit, hi |-> L[j].hi * Unit] : j \in {m \in 1..l : L[m].ev = "comp"}}
EnterComps == IF Line.clo = -1 /\ Line.chi = -1 THEN SeenComps ELSE {[lo |-> Line.clo, hi |-> Line.chi]}
TCompSync == /\ At("enter") /\ comp \notin EnterComps
             /\ \E c \in EnterComps : PComp(c)
             /\ cnt' = cnt /\ Keep /\ UNCHANGED <<tid, l>>
TEnter == /\ At("enter") /\ comp \in EnterComps
          /\ PEnter /\ Keep
          /\ cur'.k = Line.k /\ cur'.p = Line.p
          /\ Skip(1)
TCall == At("call") /\ PCall(Line.c, Line.p) /\ Keep /\ Skip(1)
TReply == At("reply") /\ PReply(Line.c, Line.o) /\ Keep /\ Skip(1)
TRes == /\ At("res")
        /\ PFinish /\ Keep
        /\ LET r == ResultOf(cur) IN
             /\ r.k = Line.k /\ r.type = Line.type
             /\ Near(r.sp, Line.sp) /\ Near(r.fp, Line.fp) /\ Near(r.ex, Line.ex)
        /\ Skip(1)
TExit == At("exit") /\ cur.k = Line.k /\ PExit /\ Keep /\ Skip(1)
TDist == At("dist") /\ PDist(Line.s, Line.r) /\ Keep /\ Skip(1)
TNoop == /\ l <= NL /\ Line.ev = "comp"
         /\ UNCHANGED ppvars /\ Skip(1)
\* nothing can run: every queue is empty and a distribution, if any, waits for the API
PPIdle == /\ chan = <<>> /\ rq = <<>>
          /\ \/ infl[1].st = "none" /\ pend[1] = 0 /\ cur.k = 0
             \/ infl[1].st = "running" /\ cur.k # 0 /\ ~cur.fin /\ cur.called = Inv /\ Pending(cur) # {}
TIdle == At("idle") /\ PPIdle /\ UNCHANGED ppvars /\ Skip(1)
TFinal == /\ At("final")
          /\ chan = <<>> /\ rq = <<>> /\ infl[1].st = "none" /\ pend[1] = 0 /\ cur.k = 0
          /\ UNCHANGED ppvars /\ Skip(1)
          /\ (l' > NL) => Say([tid |-> Tr.id, done |-> TRUE])
\* internal steps that leave no line
TSilent == /\ l <= NL /\ (PRecv \/ PCallback) /\ Keep /\ UNCHANGED <<tid, l>>

TNext == TProp \/ TBounds \/ TGot \/ TCompSync \/ TEnter \/ TDist \/ TCall \/ TReply \/ TRes \/ TExit
         \/ TNoop \/ TIdle \/ TFinal \/ TSilent

\* the design-level clauses hold in every state of every matching behaviour
TraceInv == /\ PD!NoOverlap /\ PD!PendingIsLatest
            /\ CurIsSentRequest /\ SetpointsSumToRequestMinusExcess /\ ResultsReferToSent
            /\ LastSentIsTarget /\ InForceWithinBounds /\ SentIsSum /\ SentInBounds
=============================================================================
