-------------------------- MODULE RingBufferTrace --------------------------
(* Conformance of the real OrderedRingBuffer (list and numpy containers) and  *)
(* MovingWindow with RingBuffer.tla, and evaluation of every C09 clause on    *)
(* what the real objects returned.                                            *)
(*                                                                            *)
(* Input (ndjson, IOEnv.TRACE_FILE), one object per line:                     *)
(*   id, steps = sequence of records                                          *)
(*     u = <<t, v, qlo, qhi>>   the update TLC generated (tick, value) and    *)
(*                              the tick range of the datetime battery        *)
(*     o (optional)             what the real objects did / returned after it *)
(*       rej  per object: the update raised IndexError                        *)
(*       xu   (only if it happened) other exceptions raised by the update     *)
(*       st   distinct projections [g, cv, cc, old, new, tso, tsn, buf] of    *)
(*            the objects (and of pickled + reloaded copies)                  *)
(*       qi   qi[i][j] = distinct answers to window(IdxArgs[i], IdxArgs[j]);  *)
(*            an answer is <<default fill, fill -7, fill None, fill None view>>*)
(*       qd   qd[i][j] = the same for window(T(qlo+i-1), T(qlo+j-1))          *)
(*       pi   pi[i] = distinct answers of MovingWindow.at / [] (PKeys[i])     *)
(*       pd   pd[i] = the same for the datetime key T(qlo+i-1)                *)
(*   values: 0 NaN, 1, 2, 5 initial content, -7 fill, 99 anything else,       *)
(*           -98 IndexError, -96 any other exception                          *)
(* Each step is re-executed by the spec (phase "apply"), then every clause is *)
(* evaluated on the recorded values (phase "check").  A false clause is       *)
(* written to IOEnv.VERDICT_FILE, one line per (record, clause, set of old     *)
(* defects (Dev_ predicates) whose return explains it exactly); the trace goes on. *)
(* "note.*" lines are not property clauses: note.Transcription = the object   *)
(* answered correctly but not as the transcription does (drift);              *)
(* note.PointRange = at() read NaN where its docstring promises IndexError.   *)
EXTENDS RingBuffer

VARIABLES tid, l, ph, acc
tvars == <<vars, tid, l, ph, acc>>

TraceLog == ndJsonDeserialize(IOEnv.TRACE_FILE)
Tr == TraceLog[tid]

Say(v) == CSVWrite("%1$s", <<ToJson(v)>>, IOEnv.VERDICT_FILE)
Fail(clause, devs, n, detail) == Say([tid |-> Tr.id, l |-> l, clause |-> clause, dev |-> devs, n |-> n, detail |-> detail])
Check(ok, clause, detail) == IF ok THEN TRUE ELSE Fail(clause, {}, 1, detail)

\* One verdict line per class of failing items: items that fail and are explained by the same
\* set of deviations (empty set: not explained).  Always TRUE.
Group(clause, items, Ok(_), Devs(_), Desc(_)) ==
    LET bad == {it \in items : ~Ok(it)} IN
    \A D \in {Devs(it) : it \in bad} :
       LET grp == {it \in bad : Devs(it) = D}
           ex  == CHOOSE it \in grp : TRUE
       IN Fail(clause, D, Cardinality(grp), Desc(ex))

----------------------------------------------------------------------------
(* state clauses on one projection p of a real object *)
GapSeq(p) == [i \in 1..Len(p.g) |-> <<p.g[i][1], p.g[i][2]>>]
\* content read through the documented source of truth: not in a gap -> container value
ContentOK(p) ==
    \A s \in AWindowSlots :
       LET c == CellAt(s)
           b == p.buf[Wrap(s) + 1]
           m == InGaps(GapSeq(p), Tick(s))
       IN IF c \in Vals THEN ~m /\ b = c ELSE m
StateChecks(p) ==
    /\ Check(p.tsn = tsNewest /\ p.tso = tsOldest /\ ContentOK(p), "C09.Content",
             <<"bounds", p.tso, p.tsn, "expected", tsOldest, tsNewest, "buf", p.buf, "gaps", p.g, "window", win>>)
    /\ Check(GapsSortedDisjointOf(GapSeq(p), tsOldest, tsNewest) /\ GapsExactOf(GapSeq(p)), "C09.Gaps",
             <<"gaps", p.g, "window", win, "newest slot", aNewest>>)
    /\ Check(p.cv = AValid, "C09.CountValid", <<"got", p.cv, "expected", AValid>>)
    /\ Check(p.cc = ACovered, "C09.CountCovered", <<"got", p.cc, "expected", ACovered>>)
    /\ Check(p.old = AOldestTick /\ p.new = ANewestTick, "C09.OldestNewest",
             <<"got", p.old, p.new, "expected", AOldestTick, ANewestTick>>)
    \* not a property clause: the object differs from the transcription (same content)
    /\ Check(GapSeq(p) = gaps /\ [i \in 1..Cap |-> p.buf[i]] = data, "note.Transcription",
             <<"gaps", p.g, "model", gaps, "buf", p.buf, "model", data>>)

----------------------------------------------------------------------------
(* query clauses *)
NI == Len(IdxArgs)
QT(o, i) == o.u[3] + i - 1                  \* tick of the i-th datetime argument
NQ(o) == o.u[4] - o.u[3] + 1

IdxItems(o) == {<<i, j, c, k>> \in (1..NI) \X (1..NI) \X (1..3) \X (1..4) : c <= Len(o.o.qi[i][j])}
DTItems(o)  == {<<i, j, c, k>> \in (1..NQ(o)) \X (1..NQ(o)) \X (1..3) \X (1..4) : c <= Len(o.o.qd[i][j])}

QueryChecks(o, rp, ab) ==
    LET gotI(it) == o.o.qi[it[1]][it[2]][it[3]][it[4]]
        okI(it)  == Matches(gotI(it), WinIdxSlots(ab, IdxArgs[it[1]], IdxArgs[it[2]]), Fills[it[4]])
        devI(it) == {}
        descI(it) == <<"window", IdxArgs[it[1]], IdxArgs[it[2]], "variant", it[4], "got", gotI(it),
                       "slots", WinIdxSlots(ab, IdxArgs[it[1]], IdxArgs[it[2]]), "win", win, "newest", aNewest>>
        gotD(it) == o.o.qd[it[1]][it[2]][it[3]][it[4]]
        s(it) == QT(o, it[1])
        e(it) == QT(o, it[2])
        okD(it)  == Matches(gotD(it), WinDTSlots(ab, s(it), e(it)), Fills[it[4]])
        \* a wrong answer carries the name of an old defect only if it is exactly the old design's answer
        devD(it) == IF gotD(it) # WinDTOld(rp, s(it), e(it), Fills[it[4]]) THEN {}
                    ELSE (IF Dev_SameSlotFullBuffer(rp, s(it), e(it)) THEN {"Dev_SameSlotFullBuffer"} ELSE {})
                         \cup (IF Dev_FillFromRawStart(rp, s(it), e(it), Fills[it[4]]) THEN {"Dev_FillFromRawStart"} ELSE {})
        descD(it) == <<"window ticks", s(it), e(it), "variant", it[4], "got", gotD(it),
                       "slots", WinDTSlots(ab, s(it), e(it)), "win", win, "newest", aNewest, "R", R>>
        okS(it)  == gotD(it) \in {<<ERR>>, <<-96>>} \/ Len(gotD(it)) <= SpanSlots(s(it), e(it))   \* an exception returns no slots
        devS(it) == IF gotD(it) = WinDTOld(rp, s(it), e(it), Fills[it[4]]) /\ Dev_SameSlotFullBuffer(rp, s(it), e(it))
                    THEN {"Dev_SameSlotFullBuffer"} ELSE {}
        descS(it) == <<"window ticks", s(it), e(it), "variant", it[4], "returned", Len(gotD(it)), "slots spanned", SpanSlots(s(it), e(it))>>
        \* not a property clause: a correct answer that is not the transcription's (drift)
        trI(it) == ~okI(it) \/ gotI(it) = WinIdxImpl(rp, IdxArgs[it[1]], IdxArgs[it[2]], Fills[it[4]])
        trD(it) == ~okD(it) \/ gotD(it) = WinDTImpl(rp, s(it), e(it), Fills[it[4]])
    IN /\ Group("C09.WindowIndex", IdxItems(o), okI, devI, descI)
       /\ Group("C09.WindowDatetime", DTItems(o), okD, devD, descD)
       /\ Group("C09.NoMoreThanSpan", DTItems(o), okS, devS, descS)
       /\ Group("note.Transcription", IdxItems(o), trI, devI, descI)
       /\ Group("note.Transcription", DTItems(o), trD, devI, descD)

PIItems(o) == {<<i, c>> \in (1..Len(PKeys)) \X (1..4) : c <= Len(o.o.pi[i])}
PDItems(o) == {<<i, c>> \in (1..NQ(o)) \X (1..4) : c <= Len(o.o.pd[i])}
PointChecks(o, rp, ab) ==
    LET gotI(it) == o.o.pi[it[1]][it[2]]
        k(it)    == PKeys[it[1]]
        okI(it)  == PointIntClause(ab, gotI(it), k(it))
        devI(it) == IF gotI(it) # PointIntOld(rp, k(it)) THEN {}
                    ELSE (IF Dev_PointIgnoresGaps(rp, GetTs(rp, k(it))) THEN {"Dev_PointIgnoresGaps"} ELSE {})
                         \cup (IF Dev_PointOnePastNewest(rp, GetTs(rp, k(it))) THEN {"Dev_PointOnePastNewest"} ELSE {})
        descI(it) == <<"at", k(it), "got", gotI(it), "slot", PointIntSlot(ab, k(it)), "win", win, "newest", aNewest>>
        gotD(it) == o.o.pd[it[1]][it[2]]
        t(it)    == QT(o, it[1])
        okD(it)  == PointDTClause(ab, gotD(it), t(it))
        devD(it) == IF gotD(it) # PointDTOld(rp, t(it)) THEN {}
                    ELSE IF Dev_PointIgnoresGaps(rp, t(it)) THEN {"Dev_PointIgnoresGaps"} ELSE {}
        descD(it) == <<"at tick", t(it), "got", gotD(it), "slot", NSlot(t(it)), "win", win, "newest", aNewest, "R", R>>
        okR(it)  == PointIntRange(ab, gotI(it), k(it)) \/ ~okI(it)
        descR(it) == <<"at", k(it), "got", gotI(it), "covered", ab.covered>>
        none(it) == {}
        trI(it) == ~okI(it) \/ gotI(it) = PointIntImpl(rp, k(it))
        trD(it) == ~okD(it) \/ gotD(it) = PointDTImpl(rp, t(it))
    IN /\ Group("C09.PointQueryNoStale", PIItems(o), okI, devI, descI)
       /\ Group("C09.PointQueryNoStale", PDItems(o), okD, devD, descD)
       /\ Group("note.PointRange", PIItems(o), okR, none, descR)
       /\ Group("note.Transcription", PIItems(o), trI, none, descI)
       /\ Group("note.Transcription", PDItems(o), trD, none, descD)

\* how often the antecedents were exercised (vacuity guards, summed by the driver)
Stats(o, rp, ab) ==
    LET nq == NQ(o) IN
    [ obs       |-> 1,
      rejected  |-> IF rej[1] THEN 1 ELSE 0,
      gapsGE2   |-> IF Len(gaps) >= 2 THEN 1 ELSE 0,
      staleGap  |-> IF \E s \in AWindowSlots : CellAt(s) = UNW /\ data[Wrap(s) + 1] \in Vals THEN 1 ELSE 0,
      missWrite |-> IF \E s \in AWindowSlots : CellAt(s) = MISS THEN 1 ELSE 0,
      wrapped   |-> IF tsNewest # TMIN /\ Pos(tsNewest) < Pos(tsOldest) THEN 1 ELSE 0,
      dtQueries |-> nq * nq,
      dtOffGrid |-> Cardinality({<<i, j>> \in (1..nq) \X (1..nq) : ~OnGrid(QT(o, i)) \/ ~OnGrid(QT(o, j))}),
      dtNonEmpty |-> Cardinality({<<i, j>> \in (1..nq) \X (1..nq) : Len(WinDTSlots(ab, QT(o, i), QT(o, j))) > 0}),
      dtWithFill |-> Cardinality({<<i, j>> \in (1..nq) \X (1..nq) :
                        \E m \in 1..Len(WinDTSlots(ab, QT(o, i), QT(o, j))) : CellAt(WinDTSlots(ab, QT(o, i), QT(o, j))[m]) \notin Vals}),
      devSameSlot |-> Cardinality({<<i, j>> \in (1..nq) \X (1..nq) : Dev_SameSlotFullBuffer(rp, QT(o, i), QT(o, j))}),
      devFill   |-> Cardinality({<<i, j>> \in (1..nq) \X (1..nq) : Dev_FillFromRawStart(rp, QT(o, i), QT(o, j), MISS)}),
      idxNonEmpty |-> Cardinality({<<i, j>> \in (1..NI) \X (1..NI) : Len(WinIdxSlots(ab, IdxArgs[i], IdxArgs[j])) > 0}),
      ptInRange |-> Cardinality({i \in 1..Len(PKeys) : InCovered(ab, PointIntSlot(ab, PKeys[i]))}),
      devPtGap  |-> Cardinality({i \in 1..Len(PKeys) : Dev_PointIgnoresGaps(rp, GetTs(rp, PKeys[i]))})
                    + Cardinality({i \in 1..nq : Dev_PointIgnoresGaps(rp, QT(o, i)) /\ PointDTOld(rp, QT(o, i)) # ERR}),
      devPtPast |-> Cardinality({i \in 1..Len(PKeys) : Dev_PointOnePastNewest(rp, GetTs(rp, PKeys[i]))}) ]
StatKeys == {"obs", "rejected", "gapsGE2", "staleGap", "missWrite", "wrapped", "dtQueries", "dtOffGrid", "dtNonEmpty",
             "dtWithFill", "devSameSlot", "devFill", "idxNonEmpty", "ptInRange", "devPtGap", "devPtPast"}
ZeroStats == [k \in StatKeys |-> 0]

ObsChecks(r) ==
    LET rp == Rep
        ab == Abs
    IN /\ \A i \in 1..Len(r.o.rej) :
            Check(r.o.rej[i] = rej[1], "C09.RejectsOld",
                  <<"object", i, "raised", r.o.rej[i], "tick", r.u[1], "slot", NSlot(r.u[1]), "newest slot", aNewest>>)
       /\ ("xu" \in DOMAIN r.o) =>
            Check(FALSE, "C09.RejectsOld", <<"update raised something else than IndexError", r.o.xu, "tick", r.u[1]>>)
       /\ \A i \in 1..Len(r.o.st) : StateChecks(r.o.st[i])
       /\ QueryChecks(r, rp, ab)
       /\ PointChecks(r, rp, ab)

----------------------------------------------------------------------------
TInit ==
    /\ tid \in 1..Len(TraceLog)
    /\ l = 1 /\ ph = "apply" /\ acc = ZeroStats
    /\ aNewest = NONE /\ win = [i \in 1..Cap |-> UNW]
    /\ data = [i \in 1..Cap |-> INIT] /\ gaps = <<>> /\ tsNewest = TMIN /\ tsOldest = TMAX
    /\ rej = <<FALSE, FALSE>> /\ h = <<>>

Done == Say([tid |-> Tr.id, done |-> TRUE, stats |-> acc'])

Apply ==
    /\ ph = "apply" /\ l <= Len(Tr.steps)
    /\ Step(Tr.steps[l].u[1], Tr.steps[l].u[2])
    /\ ph' = "check" /\ UNCHANGED <<h, tid, l, acc>>

Observe ==
    /\ ph = "check"
    /\ LET r == Tr.steps[l] IN
       IF "o" \in DOMAIN r
       THEN /\ ObsChecks(r)
            /\ acc' = LET st == Stats(r, Rep, Abs) IN [k \in StatKeys |-> acc[k] + st[k]]
       ELSE acc' = acc
    /\ ph' = "apply" /\ l' = l + 1 /\ UNCHANGED <<vars, tid>>
    /\ (l' > Len(Tr.steps)) => Done

TNext == Apply \/ Observe
=============================================================================
