---------------------------- MODULE EVChargerPower ----------------------------
(* X03 (part 2) - EVChargerManager: which set-points the manager commands to   *)
(* the EV chargers, and how it accounts for them.                              *)
(*                                                                             *)
(* Structured like _ev_charger_manager.py: ONE select() result of _run is      *)
(* handled per action, ending in _set_api_power + one Result when something    *)
(* was commanded:                                                              *)
(*   FirstData(c)  first message of a charger: registered with allocation 0,   *)
(*                 power 0, last reallocation = now; set_power(c, 0)           *)
(*   Data(c)       _act_on_new_data, then EvcState.update_state                *)
(*   Request(p)    new target: _throttle_ev_chargers when target < used power, *)
(*                 else _deallocate_unused_power when target < allocated       *)
(*   Tick          30 s pass (increase_power_interval = 60 s = Interval ticks) *)
(* Powers are integers (W).  With a voltage of 100 V: initial power            *)
(* InitP = 100 V * 10 A * 3 = 3000 W, minimum power MinP = 100 V * 6 A * 3 =   *)
(* 1800 W.  A charger's upper inclusion bound is fixed per behaviour.          *)
(*                                                                             *)
(* What is checked follows the DOCUMENTED behaviour where it differs from the  *)
(* statement of X03 (see CommandOnlyConnected, TotalWithinRequest, Redistributes*)
(* and the EXT.* observations of the trace specification):                     *)
(*   - the request is "the maximum power that can be set for the EV chargers"  *)
(*     (propose_power), a cap that is approached step by step (initial power   *)
(*     on connection, an increase per interval), not an amount to hand out at  *)
(*     once; no excess is reported;                                            *)
(*   - the manager does not consult the status tracker: it commands by         *)
(*     EVChargerData.is_ev_connected() of the latest message.                  *)
(*                                                                             *)
(* Named deviations of the code as it is (each branch guarded by a repair      *)
(* name in Fixes):                                                             *)
(*   "disc"   Dev_DisconnectedTreatedAsNew   a charger WITHOUT a connected EV   *)
(*            and allocation 0 falls through to "treat it like newly           *)
(*            connected" once the interval has passed and is allocated power   *)
(*   "clamp"  Dev_FixedLevelNotClamped       the initial / minimum power of    *)
(*            _allocate_new_ev and of level-1 throttling is not limited to the *)
(*            charger's upper inclusion bound                                  *)
(*   "cap"    Dev_ThrottleIgnoresUnusedAllocations   when the new target is    *)
(*            below the USED power only consumption is throttled; allocations  *)
(*            that are not being consumed stay, so the set-points in force add *)
(*            up to more than the request until another request arrives        *)
EXTENDS Integers, Sequences, FiniteSets, TLC, Json, CSV, IOUtils, SequencesExt, Functions

CONSTANTS N,          \* chargers 1..N
          InitP, MinP,
          Interval,   \* increase_power_interval in ticks
          UBs,        \* upper inclusion bounds a charger may report (all >= MinP)
          Reqs,       \* requested powers
          Kinds,      \* "ok" (EV connected, tracker would say WORKING) | "off" (no EV connected / error state)
                      \* | "nr" (EV plugged, component state not ready: connected for the manager, NOT_WORKING for the tracker)
          Uses,       \* how much of its allocation a connected EV draws: "zero" | "half" | "full"
          Outs,       \* outcomes of a set_power call: "ok" | "err" (ApiClientError) | "exc" (other) | "to" (no reply)
          MaxSteps, MaxTicks, MaxDepth,
          Mode,       \* "mc" | "gen" | "sim" | "trace"
          Fixes

VARIABLES now, target,
          ord,     \* chargers in the order of their first message (EvcStates dict order)
          cs,      \* c -> [known, conn, wk, pw, alloc, lra, ub]
          cmd,     \* the set_power calls of the last step: charger -> power (empty function: none)
          why,     \* ghost: charger -> branch that produced its command
          pa,      \* ghost: charger -> allocation before the last step
          pre,     \* ghost: what the last Data step saw [c, conn, newly, elapsed, alloc, avail, wasbad] (c = 0: not a Data step)
          over,    \* ghost: a throttling step left more allocated than requested and no request repaired it since
          bad,     \* ghost: chargers holding an allocation obtained while no EV was connected
          steps, nticks,
          h        \* history (hidden by VIEW)

vars == <<now, target, ord, cs, cmd, why, pa, pre, over, bad, steps, nticks, h>>

AllFixes == {"disc", "clamp", "cap"}
Evs == 1..N
Min2(a, b) == IF a <= b THEN a ELSE b
Empty == [x \in {} |-> 0]
Dom(f) == DOMAIN f
EmitOn == "OUT_FILE" \in DOMAIN IOEnv
Emit(v) == IF EmitOn THEN CSVWrite("%1$s", <<ToJson(v)>>, IOEnv.OUT_FILE) ELSE TRUE

SumOver(F(_)) ==
    LET s[n \in 0..N] == IF n = 0 THEN 0 ELSE F(n) + s[n - 1] IN s[N]
TotalAlloc(s) == SumOver(LAMBDA c : IF s[c].known THEN s[c].alloc ELSE 0)
TotalUsed(s) == SumOver(LAMBDA c : IF s[c].known THEN s[c].pw ELSE 0)
Conn(kind) == kind \in {"ok", "nr"}          \* EVChargerData.is_ev_connected()
Wk(kind) == kind = "ok"                      \* EVChargerStatusTracker._is_working()
Pos(c) == CHOOSE i \in 1..Len(ord) : ord[i] = c

\* list.sort(key=..., reverse=True) is stable: equal keys keep the dict (first message) order
SortedBy(Before(_, _)) == SortSeq(ord, Before)

----------------------------------------------------------------------------
(* _allocate_new_ev *)
AllocNew(s, tg, c, fx) ==
    LET avail == tg - TotalAlloc(s)
        level == IF avail > InitP THEN InitP ELSE IF avail > MinP THEN MinP ELSE 0
        lv == IF "clamp" \in fx THEN Min2(level, s[c].ub) ELSE level
    IN IF lv < MinP THEN Empty ELSE (c :> lv)

(* _act_on_new_data(c) on the state BEFORE update_state; connN = the new message shows an EV connected *)
ActBranch(s, tg, c, connN, fx) ==
    IF connN /\ ~s[c].conn THEN "new"
    ELSE IF ~connN /\ s[c].alloc > 0 THEN "zero"
    ELSE IF ~connN /\ "disc" \in fx THEN "none"
    ELSE IF now - s[c].lra < Interval THEN "none"
    ELSE IF s[c].alloc = 0 THEN "new"
    ELSE "inc"
Act(s, tg, c, connN, fx) ==
    LET b == ActBranch(s, tg, c, connN, fx) IN
    CASE b = "new" -> AllocNew(s, tg, c, fx)
      [] b = "zero" -> (c :> 0)
      [] b = "none" -> Empty
      [] b = "inc" ->
           LET allot == Min2(s[c].ub - s[c].alloc, tg - TotalAlloc(s)) IN
           IF allot <= 0 THEN Empty ELSE (c :> Min2(s[c].alloc + allot, s[c].ub))

(* _throttle_ev_chargers(by): most consuming first *)
ThrBefore(s, a, b) ==
    \/ s[a].pw > s[b].pw
    \/ s[a].pw = s[b].pw /\ s[a].alloc > s[b].alloc
    \/ s[a].pw = s[b].pw /\ s[a].alloc = s[b].alloc /\ Pos(a) < Pos(b)
Throttle(s, by, fx) ==
    LET lst == SortedBy(LAMBDA a, b : ThrBefore(s, a, b))
        step(acc, c) ==
            IF acc.stop THEN acc
            ELSE LET l1p == IF s[c].pw > MinP THEN s[c].pw - MinP ELSE 0
                     ep == IF s[c].pw = 0 THEN s[c].alloc ELSE s[c].pw
                 IN IF ep = 0 THEN [acc EXCEPT !.stop = TRUE]
                    ELSE IF acc.l1 < by
                         THEN [acc EXCEPT !.l1 = @ + l1p, !.c1 = @ + 1,
                                          !.l2 = IF acc.l2 < by THEN @ + ep ELSE @,
                                          !.c2 = IF acc.l2 < by THEN @ + 1 ELSE @]
                         ELSE [acc EXCEPT !.stop = TRUE]
        r == FoldLeft(step, [l1 |-> 0, c1 |-> 0, l2 |-> 0, c2 |-> 0, stop |-> FALSE], lst)
        lvl(c) == IF "clamp" \in fx THEN Min2(MinP, s[c].ub) ELSE MinP
    IN IF r.l1 >= by
       THEN [ch |-> [c \in {lst[i] : i \in 1..r.c1} |-> lvl(c)], level |-> "thr1"]
       ELSE [ch |-> [c \in {lst[i] : i \in 1..r.c2} |-> 0], level |-> "thr2"]

(* _deallocate_unused_power(to): least used allocation first *)
DeaBefore(s, a, b) ==
    \/ s[a].alloc - s[a].pw > s[b].alloc - s[b].pw
    \/ s[a].alloc - s[a].pw = s[b].alloc - s[b].pw /\ Pos(a) < Pos(b)
Dealloc(s, to) ==
    LET lst == SortedBy(LAMBDA a, b : DeaBefore(s, a, b))
        step(acc, c) ==
            IF acc.d >= to THEN acc
            ELSE LET e0 == s[c].alloc - s[c].pw IN
                 IF e0 <= 0 THEN acc
                 ELSE LET e == Min2(e0, to - acc.d)
                          t0 == s[c].alloc - e
                          tgt == IF t0 < MinP THEN 0 ELSE t0
                      IN [d |-> acc.d + (s[c].alloc - tgt), ch |-> acc.ch @@ (c :> tgt)]
    IN FoldLeft(step, [d |-> 0, ch |-> Empty], lst).ch

\* right-biased merge of two command maps
Over(f, g) == [c \in Dom(f) \cup Dom(g) |-> IF c \in Dom(g) THEN g[c] ELSE f[c]]

(* handling of a new target p *)
ReqBranch(s, p) == IF p < TotalUsed(s) THEN "throttle" ELSE IF p < TotalAlloc(s) THEN "dealloc" ELSE "none"
ReqChanges(s, p, fx) ==
    LET b == ReqBranch(s, p) IN
    CASE b = "none" -> [ch |-> Empty, why |-> Empty]
      [] b = "dealloc" -> LET d == Dealloc(s, TotalAlloc(s) - p) IN [ch |-> d, why |-> [c \in Dom(d) |-> "dealloc"]]
      [] b = "throttle" ->
           LET t == Throttle(s, TotalUsed(s) - p, fx)
               \* repaired ("cap"): what is still allocated beyond the target after throttling is deallocated as well
               s1 == [c \in Evs |-> IF c \in Dom(t.ch)
                                    THEN [s[c] EXCEPT !.alloc = t.ch[c], !.pw = Min2(s[c].pw, t.ch[c])] ELSE s[c]]
               d == IF "cap" \in fx /\ TotalAlloc(s1) > p THEN Dealloc(s1, TotalAlloc(s1) - p) ELSE Empty
           IN [ch |-> Over(t.ch, d),
               why |-> Over([c \in Dom(t.ch) |-> t.level], [c \in Dom(d) |-> "dealloc"])]

----------------------------------------------------------------------------
NoState == [known |-> FALSE, conn |-> FALSE, wk |-> FALSE, pw |-> 0, alloc |-> 0, lra |-> 0, ub |-> 0]
NoPre == [c |-> 0, conn |-> FALSE, newly |-> FALSE, elapsed |-> FALSE, alloc |-> 0, avail |-> 0, wasbad |-> FALSE]

Init ==
    /\ now = 0 /\ target = 0 /\ ord = <<>>
    /\ cs = [c \in Evs |-> NoState]
    /\ cmd = Empty /\ why = Empty /\ pa = Empty /\ pre = NoPre
    /\ over = FALSE /\ bad = {}
    /\ steps = 0 /\ nticks = 0
    /\ h = <<>>

\* apply the commands: update_last_allocation(power, now) - before the API call, whatever its outcome
Apply(s, ch) == [c \in Evs |-> IF c \in Dom(ch) THEN [s[c] EXCEPT !.alloc = ch[c], !.lra = now] ELSE s[c]]

Tick ==
    /\ now' = now + 1 /\ nticks' = nticks + 1
    /\ cmd' = Empty /\ why' = Empty /\ pa' = Empty /\ pre' = NoPre
    /\ UNCHANGED <<target, ord, cs, over, bad, steps>>

FirstData(c, kind, ub) ==
    /\ ~cs[c].known
    /\ ord' = Append(ord, c)
    /\ cs' = [cs EXCEPT ![c] = [known |-> TRUE, conn |-> Conn(kind), wk |-> Wk(kind), pw |-> 0, alloc |-> 0, lra |-> now, ub |-> ub]]
    /\ cmd' = (c :> 0) /\ why' = (c :> "first") /\ pa' = (c :> 0) /\ pre' = NoPre
    /\ over' = (over /\ TotalAlloc(cs') > target)
    /\ bad' = bad
    /\ steps' = steps + 1
    /\ UNCHANGED <<now, target, nticks>>

Data(c, kind, pw, fx) ==
    /\ cs[c].known
    /\ LET connN == Conn(kind)
           b == ActBranch(cs, target, c, connN, fx)
           ch == Act(cs, target, c, connN, fx)
           s1 == [cs EXCEPT ![c].pw = pw, ![c].conn = connN, ![c].wk = Wk(kind)]     \* update_state
       IN /\ cs' = Apply(s1, ch)
          /\ cmd' = ch
          /\ why' = [x \in Dom(ch) |-> b]
          /\ pa' = [x \in Dom(ch) |-> cs[x].alloc]
          /\ pre' = [c |-> c, conn |-> connN, newly |-> connN /\ ~cs[c].conn, elapsed |-> now - cs[c].lra >= Interval,
                     alloc |-> cs[c].alloc, avail |-> target - TotalAlloc(cs), wasbad |-> c \in bad]
          /\ bad' = IF c \in Dom(ch) /\ ch[c] > 0 /\ ~connN THEN bad \cup {c}
                    ELSE IF connN \/ (c \in Dom(ch) /\ ch[c] = 0) THEN bad \ {c} ELSE bad
    /\ over' = (over /\ TotalAlloc(cs') > target)
    /\ steps' = steps + 1
    /\ UNCHANGED <<now, target, ord, nticks>>

Request(p, fx) ==
    LET r == ReqChanges(cs, p, fx) IN
    /\ target' = p
    /\ cs' = Apply(cs, r.ch)
    /\ cmd' = r.ch /\ why' = r.why
    /\ pa' = [x \in Dom(r.ch) |-> cs[x].alloc]
    /\ pre' = NoPre
    /\ over' = (ReqBranch(cs, p) = "throttle" /\ TotalAlloc(cs') > p)
    /\ bad' = bad \ {c \in Dom(r.ch) : r.ch[c] = 0}
    /\ steps' = steps + 1
    /\ UNCHANGED <<now, ord, nticks>>

----------------------------------------------------------------------------
Hist == Mode \in {"gen", "sim"}
Bounded == Mode \in {"gen", "sim", "mc"}
Log(r) == h' = (IF Hist THEN Append(h, r) ELSE h)
EmitRule == Mode = "gen" => Emit(h')
Fx == Fixes
\* what a connected EV draws of the allocation in force
UseOf(c, kind, use) == IF kind # "ok" \/ use = "zero" THEN 0 ELSE IF use = "half" THEN cs[c].alloc \div 2 ELSE cs[c].alloc
\* outcome per set_power call of the step, as a sequence over the chargers ("ok" where nothing is called);
\* gen: all ok, or exactly one call with another outcome; sim: any
OutVecs(D) ==
    LET all == [Evs -> Outs] IN
    IF Mode = "sim" THEN {o \in all : \A c \in Evs \ D : o[c] = "ok"}
    ELSE {o \in all : /\ \A c \in Evs \ D : o[c] = "ok"
                      /\ Cardinality({c \in D : o[c] # "ok"}) <= 1}
LogOuts == IF Hist THEN OutVecs(Dom(cmd')) ELSE {[c \in Evs |-> "ok"]}

TickStep == /\ Bounded => nticks < MaxTicks
            /\ Tick /\ Log([a |-> "tick"]) /\ EmitRule
FirstStep == /\ Bounded => steps < MaxSteps
             /\ \E c \in Evs, kind \in Kinds, ub \in UBs :
                  /\ \A d \in Evs : d < c => cs[d].known           \* symmetry: chargers appear in index order
                  /\ FirstData(c, kind, ub)
                  /\ \E o \in LogOuts : Log([a |-> "data", c |-> c, kind |-> kind, pw |-> 0, ub |-> ub, o |-> o])
             /\ EmitRule
DataStep == /\ Bounded => steps < MaxSteps
            /\ \E c \in Evs, kind \in Kinds, use \in Uses :
                 /\ Data(c, kind, UseOf(c, kind, use), Fx)
                 /\ \E o \in LogOuts : Log([a |-> "data", c |-> c, kind |-> kind, pw |-> UseOf(c, kind, use), ub |-> cs[c].ub, o |-> o])
            /\ EmitRule
RequestStep == /\ Bounded => steps < MaxSteps
               /\ \E p \in Reqs :
                    /\ Request(p, Fx)
                    /\ \E o \in LogOuts : Log([a |-> "req", p |-> p, o |-> o, ov |-> over'])
               /\ EmitRule

Next == TickStep \/ FirstStep \/ DataStep \/ RequestStep
SimEmit == (Mode = "sim" /\ Len(h) = MaxDepth) => Emit(h)

\* relative-time view (the interval comparison is all that time is used for)
View == <<target, ord, [c \in Evs |-> [cs[c] EXCEPT !.lra = Min2(now - cs[c].lra, Interval)]], cmd, why, pa, pre, over, bad,
          IF Bounded THEN <<steps, nticks>> ELSE <<>>>>

----------------------------------------------------------------------------
(* X03, manager clauses: operators over (commands, state) so that the trace specification can evaluate *)
(* them on recorded values                                                                             *)
\* a positive set-point goes only to a charger whose latest message shows an EV connected
C_CommandOnlyConnected(ch, conn) == \A c \in Dom(ch) : ch[c] > 0 => conn[c]
\* never more than the charger's bounds: 0 <= set-point <= upper inclusion bound of its latest message
C_WithinChargerBounds(ch, ub) == \A c \in Dom(ch) : 0 <= ch[c] /\ ch[c] <= ub[c]
\* never more than the requested total: the set-points in force add up to at most the request
C_TotalWithinRequest(total, tg) == total <= tg
\* re-distribution: a charger whose EV left is set to 0 at once; a charger with a connected EV that reports
\* (newly connected, or its interval has passed) while power is available and it has room gets more
Room(p, ub) == IF p.alloc = 0 THEN p.avail > MinP ELSE p.alloc < ub /\ p.avail > 0
C_Redistributes(p, ch, ub) ==
    p.c # 0 =>
      /\ (~p.conn /\ p.alloc > 0) => (p.c \in Dom(ch) /\ ch[p.c] = 0)
      /\ (p.conn /\ (p.newly \/ p.elapsed) /\ Room(p, ub)) => (p.c \in Dom(ch) /\ ch[p.c] > p.alloc)
\* Result of _set_api_power when the calls for the chargers in F did not succeed
MkResult(ch, F, tg) ==
    LET fp == SumOver(LAMBDA c : IF c \in F THEN ch[c] ELSE 0)
    IN [type |-> IF F = {} THEN "Success" ELSE "PartialFailure", succ |-> Dom(ch) \ F, failed |-> F,
        fp |-> fp, sp |-> tg - fp, ex |-> 0]
\* documented fields of Success / PartialFailure
C_ResultAccounts(r, ch, F, tg) ==
    /\ r.succ \cap r.failed = {} /\ r.succ \cup r.failed = Dom(ch)
    /\ r.failed = F
    /\ (r.type = "Success") <=> (F = {})
    /\ r.fp = SumOver(LAMBDA c : IF c \in F THEN ch[c] ELSE 0)
    /\ r.sp + r.fp + r.ex = tg

Conns == [c \in Evs |-> cs[c].conn]
Ubs == [c \in Evs |-> cs[c].ub]

\* named deviations (cause predicates over the model's own intermediate values)
D_Disc(ch, s, bd) == \E c \in Dom(ch) : ch[c] > 0 /\ ~s[c].conn /\ c \in bd
D_Clamp(ch, s, wy, p0) ==
    \E c \in Dom(ch) : ch[c] > s[c].ub /\ (wy[c] \in {"new", "thr1"} \/ (wy[c] = "dealloc" /\ p0[c] > s[c].ub))
Dev_DisconnectedTreatedAsNew == D_Disc(cmd, cs, bad)
Dev_FixedLevelNotClamped == D_Clamp(cmd, cs, why, pa)
Dev_ThrottleIgnoresUnusedAllocations == over
DeviationFree == ~Dev_DisconnectedTreatedAsNew /\ ~Dev_FixedLevelNotClamped /\ ~over /\ bad = {}

CommandOnlyConnected == C_CommandOnlyConnected(cmd, Conns)
WithinChargerBounds == C_WithinChargerBounds(cmd, Ubs)
TotalWithinRequest == C_TotalWithinRequest(TotalAlloc(cs), target)
Redistributes == C_Redistributes(pre, cmd, IF pre.c = 0 THEN 0 ELSE cs[pre.c].ub)
ResultAccounts == \A F \in SUBSET Dom(cmd) : C_ResultAccounts(MkResult(cmd, F, target), cmd, F, target)

CommandOnlyConnectedOrDev == CommandOnlyConnected \/ Dev_DisconnectedTreatedAsNew
WithinChargerBoundsOrDev == WithinChargerBounds \/ Dev_FixedLevelNotClamped
TotalWithinRequestOrDev == TotalWithinRequest \/ Dev_ThrottleIgnoresUnusedAllocations
\* an EV that (re)connects to a charger still holding the allocation it got while disconnected is handled by
\* _allocate_new_ev, which looks at the available power only (secondary effect of Dev_DisconnectedTreatedAsNew)
RedistributesOrDev == Redistributes \/ pre.wasbad

TypeOK ==
    /\ target \in Reqs \cup {0} /\ Fixes \subseteq AllFixes
    /\ \A c \in Evs : cs[c].alloc >= 0 /\ cs[c].pw >= 0
    /\ \A c \in Evs : cs[c].known <=> (\E i \in 1..Len(ord) : ord[i] = c)
=============================================================================
